// Core of the harness: options, fork-based case pool with crash attribution,
// violation reporting against known_findings.txt, evidence writer.
#pragma once
#include <atomic>
#include <chrono>
#include <cstdint>
#include <cstring>
#include <functional>
#include <map>
#include <set>
#include <string>
#include <vector>

#include "json.hpp"

namespace vx
{
std::string hex(const void* p, size_t n);
std::string hex(const std::string& s);
std::string unhex(const std::string& h);
uint64_t fnv1a(const void* p, size_t n, uint64_t seed = 1469598103934665603ull);
std::string hash128(const std::string& s);  // 32 hex digits
double now_s();
std::string read_file(const std::string& path);
void write_file(const std::string& path, const std::string& content);
std::string verif_root();  // /verif (or $VERIF_ROOT)
std::string repo_root();   // /repo (or $VERIF_REPO)
std::string scratch_dir();  // private dir under /dev/shm, removed at exit
std::vector<std::string> split(const std::string& s, char sep);
std::string join(const std::vector<std::string>& v, const std::string& sep);
std::string trunc(const std::string& s, size_t n = 400);

struct Options
{
    std::string property;
    std::string tier = "quick";
    int jobs = 16;
    long seed = 0;
    double deadline_s = 0;  // 0 = tier default chosen by the check
    std::string only;       // restrict to one case (used by replay)
    bool replaying = false;
    bool quick() const { return tier != "thorough"; }
};

// ---------------------------------------------------------------------------
// Pool: runs cases 0..n-1 in forked workers. A case function emits lines
// (arbitrary strings without '\n'); fatal outcomes (signal, sanitizer report,
// watchdog) are attributed to the case in flight and the worker is restarted.
struct SubCrash
{
    int64_t substep = -1;
    bool timeout = false;
    std::string kind, frame, head;
    std::string label;  // what the worker said it was doing (Sub::label)
};
// Progress marker inside a case: a case that enumerates many inputs calls at(k) before input k; when the
// worker dies the supervisor attributes the crash to (case, k) and resumes the case from k + 1.
extern std::string g_tier;         // tier of the running check (recorded in replay files)
extern int g_substep_timeout_s;  // watchdog re-armed at every sub-step (default 20 s)
struct Sub
{
    std::atomic<int64_t>* slot = nullptr;
    char* label_buf = nullptr;  // 1024 bytes of shared memory
    void at(int64_t k);
    void label(const std::string& s)
    {
        if (!label_buf) return;
        size_t n = s.size() < 1023 ? s.size() : 1023;
        memcpy(label_buf, s.data(), n);
        label_buf[n] = 0;
    }
};
struct CaseResult
{
    enum Status { Ok, Crashed, TimedOut };
    Status status = Ok;
    int signal = 0;
    std::string crash_kind;   // "asan:heap-buffer-overflow", "ubsan", "glibcxx-assert", "terminate", "signal:11", "alloc-limit", "timeout"
    std::string crash_frame;  // innermost frame mentioning djinterop (function name), if any
    std::string crash_head;   // first lines of the report
    std::vector<std::string> lines;
    std::vector<SubCrash> subcrashes;  // crashes attributed to sub-steps (case was resumed after each)
};

class Emitter
{
public:
    explicit Emitter(int fd, size_t idx) : fd_(fd), idx_(idx) {}
    void emit(const std::string& line);
    void emit_json(const Json& j) { emit(j.dump(0)); }

private:
    int fd_;
    size_t idx_;
};

struct PoolStats
{
    size_t cases = 0, crashed = 0, timed_out = 0;
};

// Resumable variant: fn(i, resume_from, emitter, sub). fn must skip sub-steps < resume_from.
std::vector<CaseResult> run_pool_sub(
    size_t n, int jobs, int per_case_timeout_s,
    const std::function<void(size_t, int64_t, Emitter&, Sub&)>& fn, PoolStats* stats = nullptr,
    double deadline_abs = 0, bool* deadline_hit = nullptr, size_t max_resumes = 64);

// per_case_timeout_s: SIGALRM watchdog. Returns one CaseResult per case.
std::vector<CaseResult> run_pool(
    size_t n, int jobs, int per_case_timeout_s,
    const std::function<void(size_t, Emitter&)>& fn, PoolStats* stats = nullptr,
    double deadline_abs = 0, bool* deadline_hit = nullptr);

// Run one function in a forked child, with the same crash classification.
CaseResult run_isolated(int timeout_s, const std::function<void(Emitter&)>& fn);

// ---------------------------------------------------------------------------
struct Violation
{
    std::string key;       // identity used for known-finding matching (exact)
    std::string what;      // one line human description
    std::string case_id;   // string from which the check can re-run this exact case
    Json detail;           // expected / observed etc
};

class Reporter
{
public:
    Reporter(const std::string& property, const std::string& variant);
    void add(const Violation& v);
    // Merge a violation serialised by a worker.
    void add_json(const Json& j);
    static Json to_json(const Violation& v);
    void set_counts(const std::map<std::string, long long>& m)
    {
        for (auto& kv : m)
            if (first_.count(kv.first) && (size_t)kv.second > count_[kv.first]) count_[kv.first] = (size_t)kv.second;
    }
    size_t total() const { return total_; }
    size_t distinct_keys() const { return first_.size(); }
    // Prints KNOWN-FINDING / VIOLATION lines, writes replay files; returns
    // number of unlisted violations (distinct keys).
    int finish();
    int known_hits() const { return known_hits_; }
    const std::map<std::string, Violation>& firsts() const { return first_; }
    std::map<std::string, size_t> counts() const { return count_; }
    std::set<std::string> known_keys() const { return known_; }
    bool is_known(const std::string& key) const { return known_.count(key) != 0; }

private:
    std::string property_, variant_;
    std::map<std::string, Violation> first_;
    std::map<std::string, size_t> count_;
    std::set<std::string> known_;
    std::map<std::string, std::string> known_text_;
    size_t total_ = 0;
    int known_hits_ = 0;
};

class Evidence
{
public:
    Evidence(const Options& o, const std::string& level);
    Json& cov() { return j_["coverage"]; }
    Json& root() { return j_; }
    void assumption(const std::string& s) { j_["assumptions"].push(s); }
    void sample(const Json& s, size_t max = 12)
    {
        if (cov()["samples"].size() < max) cov()["samples"].push(s);
    }
    void write(int violations, int known);

private:
    Json j_;
    std::string path_;
    double t0_;
};

// Check registry ------------------------------------------------------------
struct CheckDef
{
    const char* id;
    const char* variant_quick;     // "san" | "opt"
    const char* variant_thorough;  // "san" | "opt"
    int (*run)(const Options&);    // returns number of unlisted violations (0 = ok), <0 = harness error
};
void register_check(const CheckDef& d);
const std::vector<CheckDef>& checks();
struct Registrar
{
    explicit Registrar(const CheckDef& d) { register_check(d); }
};

const char* build_variant();  // "san" or "opt", from compile flags
}  // namespace vx
