// Link-time seams: the harness defines inflate() (and, in sqlseam.cpp, sqlite3_step / sqlite3_open_v2) so that it owns
// the library's environment. Default behaviour is to forward to the real function.
#pragma once
#include <cstdint>

namespace vx::seam
{
// thrown (not derived from std::exception) when an armed horizon is exceeded, so that a non-terminating loop is reported, not waited for
struct HorizonExceeded
{
    const char* what;
    long calls;
};
struct InflateCtl
{
    bool armed = false;   // only calls made while armed are counted / faulted (refcodec's own zlib use is never touched)
    long calls = 0;       // inflate() calls since arming
    long horizon = 0;     // > 0: throw HorizonExceeded when calls exceeds it
    long fault_at = -1;   // >= 0: the call with this index (0-based) returns fault_rc without touching the stream
    int fault_rc = 0;
    long fault_at2 = -1;  // optional second deviation
    int fault_rc2 = 0;
    long faults_delivered = 0;
};
extern InflateCtl inflate_ctl;
struct InflateArm
{
    explicit InflateArm(long horizon)
    {
        inflate_ctl = InflateCtl();
        inflate_ctl.armed = true;
        inflate_ctl.horizon = horizon;
    }
    ~InflateArm() { inflate_ctl.armed = false; }
};
}  // namespace vx::seam
