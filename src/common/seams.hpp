// Link-time seams: the harness defines inflate() (and, in sqlseam.cpp, sqlite3_step / sqlite3_open_v2) so that it owns
// the library's environment. Default behaviour is to forward to the real function.
#pragma once
#include <cstdint>

namespace vx::seam
{
// thrown (not derived from std::exception) when an armed horizon is exceeded, so that a non-terminating loop is reported, not waited for
struct HorizonExceeded
{
    const char* what;
    long calls;
};
struct InflateCtl
{
    bool armed = false;   // only calls made while armed are counted / faulted (refcodec's own zlib use is never touched)
    long calls = 0;       // inflate() calls since arming
    long horizon = 0;     // > 0: throw HorizonExceeded when calls exceeds it
    long fault_at = -1;   // >= 0: the call with this index (0-based) returns fault_rc without touching the stream
    int fault_rc = 0;
    long fault_at2 = -1;  // optional second deviation
    int fault_rc2 = 0;
    long faults_delivered = 0;
};
extern InflateCtl inflate_ctl;
struct InflateArm
{
    explicit InflateArm(long horizon)
    {
        inflate_ctl = InflateCtl();
        inflate_ctl.armed = true;
        inflate_ctl.horizon = horizon;
    }
    ~InflateArm() { inflate_ctl.armed = false; }
};
}  // namespace vx::seam

// ------------------------------------------------------------------------------------------------ SQLite seam
#include <string>
#include <vector>
struct sqlite3;
namespace vx::seam
{
struct SqlCtl
{
    bool armed = false;        // count / fault statement executions only while armed
    long execs = 0;            // statement executions since arming (an execution = first sqlite3_step after prepare/reset)
    long writes = 0;           // of which not read-only
    long fault_at = -1;        // 0-based index of the execution to fail
    int fault_kind = 0;        // 1: return SQLITE_FULL without running the statement; 2: interrupt it through the progress handler
    long faults_delivered = 0;
    bool log_sql = false;
    std::vector<std::string> log;
    // VM-step horizon (progress handler): when > 0 a single sqlite3_step that needs more than this many VM steps is interrupted
    long vm_budget = 0;
    bool horizon_hit = false;
    // internal
    long vm_used = 0;
    bool interrupt_now = false;
};
extern SqlCtl sql_ctl;
std::vector<sqlite3*>& opened_handles();  // currently open connections, in open order
struct SqlArm
{
    SqlArm()
    {
        bool log = sql_ctl.log_sql;
        long budget = sql_ctl.vm_budget;
        sql_ctl = SqlCtl();
        sql_ctl.log_sql = log;
        sql_ctl.vm_budget = budget;
        sql_ctl.armed = true;
    }
    ~SqlArm() { sql_ctl.armed = false; }
};
}  // namespace vx::seam
