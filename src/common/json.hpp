// Minimal JSON value: enough for evidence files, replay files and known-findings.
#pragma once
#include <cstdint>
#include <cstdio>
#include <cstring>
#include <list>
#include <map>
#include <memory>
#include <sstream>
#include <stdexcept>
#include <string>
#include <vector>

namespace vx
{
class Json
{
public:
    enum Kind { Null, Bool, Int, Dbl, Str, Arr, Obj };
    Kind kind = Null;
    bool b = false;
    int64_t i = 0;
    double d = 0;
    std::string s;
    std::vector<Json> a;
    std::list<std::pair<std::string, Json>> o;  // insertion ordered; list keeps references stable

    Json() = default;
    Json(bool v) : kind(Bool), b(v) {}
    Json(int v) : kind(Int), i(v) {}
    Json(unsigned v) : kind(Int), i(v) {}
    Json(long v) : kind(Int), i(v) {}
    Json(long long v) : kind(Int), i(v) {}
    Json(unsigned long v) : kind(Int), i((int64_t)v) {}
    Json(unsigned long long v) : kind(Int), i((int64_t)v) {}
    Json(double v) : kind(Dbl), d(v) {}
    Json(const char* v) : kind(Str), s(v) {}
    Json(const std::string& v) : kind(Str), s(v) {}
    static Json array() { Json j; j.kind = Arr; return j; }
    static Json object() { Json j; j.kind = Obj; return j; }

    Json& operator[](const std::string& k)
    {
        if (kind == Null) kind = Obj;
        for (auto& kv : o) if (kv.first == k) return kv.second;
        o.emplace_back(k, Json());
        return o.back().second;
    }
    const Json* find(const std::string& k) const
    {
        for (auto& kv : o) if (kv.first == k) return &kv.second;
        return nullptr;
    }
    bool has(const std::string& k) const { return find(k) != nullptr; }
    const Json& at(const std::string& k) const
    {
        auto* p = find(k);
        if (!p) throw std::runtime_error("json: missing key " + k);
        return *p;
    }
    std::string str(const std::string& k, const std::string& def = "") const
    {
        auto* p = find(k);
        return p && p->kind == Str ? p->s : def;
    }
    int64_t num(const std::string& k, int64_t def = 0) const
    {
        auto* p = find(k);
        if (!p) return def;
        if (p->kind == Int) return p->i;
        if (p->kind == Dbl) return (int64_t)p->d;
        return def;
    }
    void push(Json v)
    {
        if (kind == Null) kind = Arr;
        a.push_back(std::move(v));
    }
    size_t size() const { return kind == Arr ? a.size() : o.size(); }

    static void esc(std::string& out, const std::string& s)
    {
        out += '"';
        for (unsigned char c : s)
        {
            switch (c)
            {
                case '"': out += "\\\""; break;
                case '\\': out += "\\\\"; break;
                case '\n': out += "\\n"; break;
                case '\r': out += "\\r"; break;
                case '\t': out += "\\t"; break;
                default:
                    if (c < 0x20 || c >= 0x7f)
                    {
                        // Keep output pure ASCII: bytes are written as \u00XX
                        // (strings here are byte strings, not necessarily UTF-8).
                        char buf[8];
                        snprintf(buf, sizeof buf, "\\u%04x", c);
                        out += buf;
                    }
                    else
                        out += (char)c;
            }
        }
        out += '"';
    }
    void dump(std::string& out, int indent = 1, int level = 0) const
    {
        auto nl = [&](int l) {
            if (indent) { out += '\n'; out.append(l * indent, ' '); }
        };
        switch (kind)
        {
            case Null: out += "null"; break;
            case Bool: out += b ? "true" : "false"; break;
            case Int: out += std::to_string(i); break;
            case Dbl:
            {
                char buf[40];
                if (d != d || d > 1e308 || d < -1e308) { out += "null"; break; }
                snprintf(buf, sizeof buf, "%.17g", d);
                out += buf;
                if (!strpbrk(buf, ".eE")) out += ".0";
                break;
            }
            case Str: esc(out, s); break;
            case Arr:
                out += '[';
                for (size_t k = 0; k < a.size(); ++k)
                {
                    if (k) out += ',';
                    nl(level + 1);
                    a[k].dump(out, indent, level + 1);
                }
                if (!a.empty()) nl(level);
                out += ']';
                break;
            case Obj:
                out += '{';
            {
                bool first = true;
                for (auto& kv : o)
                {
                    if (!first) out += ',';
                    first = false;
                    nl(level + 1);
                    esc(out, kv.first);
                    out += indent ? ": " : ":";
                    kv.second.dump(out, indent, level + 1);
                }
            }
                if (!o.empty()) nl(level);
                out += '}';
                break;
        }
    }
    std::string dump(int indent = 1) const
    {
        std::string out;
        dump(out, indent, 0);
        return out;
    }

    // ---- parser ----
    static Json parse(const std::string& text)
    {
        size_t p = 0;
        Json j = parse_value(text, p);
        skip(text, p);
        if (p != text.size()) throw std::runtime_error("json: trailing data");
        return j;
    }

private:
    static void skip(const std::string& t, size_t& p)
    {
        while (p < t.size() && (t[p] == ' ' || t[p] == '\n' || t[p] == '\r' || t[p] == '\t')) ++p;
    }
    static Json parse_value(const std::string& t, size_t& p)
    {
        skip(t, p);
        if (p >= t.size()) throw std::runtime_error("json: eof");
        char c = t[p];
        if (c == '{')
        {
            Json j = object();
            ++p;
            skip(t, p);
            if (t[p] == '}') { ++p; return j; }
            for (;;)
            {
                skip(t, p);
                Json k = parse_value(t, p);
                if (k.kind != Str) throw std::runtime_error("json: key");
                skip(t, p);
                if (t[p] != ':') throw std::runtime_error("json: colon");
                ++p;
                Json v = parse_value(t, p);
                j.o.emplace_back(k.s, std::move(v));
                skip(t, p);
                if (t[p] == ',') { ++p; continue; }
                if (t[p] == '}') { ++p; return j; }
                throw std::runtime_error("json: object");
            }
        }
        if (c == '[')
        {
            Json j = array();
            ++p;
            skip(t, p);
            if (t[p] == ']') { ++p; return j; }
            for (;;)
            {
                j.a.push_back(parse_value(t, p));
                skip(t, p);
                if (t[p] == ',') { ++p; continue; }
                if (t[p] == ']') { ++p; return j; }
                throw std::runtime_error("json: array");
            }
        }
        if (c == '"')
        {
            Json j;
            j.kind = Str;
            ++p;
            while (p < t.size() && t[p] != '"')
            {
                if (t[p] == '\\')
                {
                    ++p;
                    char e = t[p];
                    switch (e)
                    {
                        case 'n': j.s += '\n'; break;
                        case 'r': j.s += '\r'; break;
                        case 't': j.s += '\t'; break;
                        case 'b': j.s += '\b'; break;
                        case 'f': j.s += '\f'; break;
                        case 'u':
                        {
                            unsigned v = std::stoul(t.substr(p + 1, 4), nullptr, 16);
                            p += 4;
                            if (v < 0x100) j.s += (char)v;  // byte strings
                            else if (v < 0x800) { j.s += (char)(0xC0 | (v >> 6)); j.s += (char)(0x80 | (v & 0x3F)); }
                            else { j.s += (char)(0xE0 | (v >> 12)); j.s += (char)(0x80 | ((v >> 6) & 0x3F)); j.s += (char)(0x80 | (v & 0x3F)); }
                            break;
                        }
                        default: j.s += e;
                    }
                    ++p;
                }
                else
                    j.s += t[p++];
            }
            ++p;
            return j;
        }
        if (!strncmp(t.c_str() + p, "true", 4)) { p += 4; return Json(true); }
        if (!strncmp(t.c_str() + p, "false", 5)) { p += 5; return Json(false); }
        if (!strncmp(t.c_str() + p, "null", 4)) { p += 4; return Json(); }
        size_t q = p;
        bool isd = false;
        while (q < t.size() && (isdigit((unsigned char)t[q]) || t[q] == '-' || t[q] == '+' || t[q] == '.' || t[q] == 'e' || t[q] == 'E'))
        {
            if (t[q] == '.' || t[q] == 'e' || t[q] == 'E') isd = true;
            ++q;
        }
        if (q == p) throw std::runtime_error("json: bad value");
        std::string n = t.substr(p, q - p);
        p = q;
        if (isd) return Json(std::stod(n));
        return Json((long long)std::stoll(n));
    }
};
}  // namespace vx
