// Interposed sqlite3_open_v2 / sqlite3_close* / sqlite3_step: connection capture, statement-execution counting,
// fault injection at the k-th execution, VM-step horizon.
#include <dlfcn.h>
#include <sqlite3.h>

#include <algorithm>

#include "seams.hpp"

namespace vx::seam
{
SqlCtl sql_ctl;
std::vector<sqlite3*>& opened_handles()
{
    static std::vector<sqlite3*> v;
    return v;
}
static int progress_cb(void*)
{
    if (sql_ctl.interrupt_now)
    {
        sql_ctl.interrupt_now = false;
        return 1;
    }
    if (sql_ctl.vm_budget > 0)
    {
        sql_ctl.vm_used += 1000;
        if (sql_ctl.vm_used > sql_ctl.vm_budget)
        {
            sql_ctl.horizon_hit = true;
            return 1;
        }
    }
    return 0;
}
}  // namespace vx::seam

using namespace vx::seam;

extern "C" int sqlite3_open_v2(const char* filename, sqlite3** ppDb, int flags, const char* zVfs)
{
    static int (*real)(const char*, sqlite3**, int, const char*) = nullptr;
    if (!real) real = (int (*)(const char*, sqlite3**, int, const char*))dlsym(RTLD_NEXT, "sqlite3_open_v2");
    int rc = real(filename, ppDb, flags, zVfs);
    if (rc == SQLITE_OK && ppDb && *ppDb)
    {
        opened_handles().push_back(*ppDb);
        sqlite3_progress_handler(*ppDb, 1000, progress_cb, nullptr);
    }
    return rc;
}
static void forget(sqlite3* db)
{
    auto& v = opened_handles();
    v.erase(std::remove(v.begin(), v.end(), db), v.end());
}
extern "C" int sqlite3_close(sqlite3* db)
{
    static int (*real)(sqlite3*) = nullptr;
    if (!real) real = (int (*)(sqlite3*))dlsym(RTLD_NEXT, "sqlite3_close");
    forget(db);
    return real(db);
}
extern "C" int sqlite3_close_v2(sqlite3* db)
{
    static int (*real)(sqlite3*) = nullptr;
    if (!real) real = (int (*)(sqlite3*))dlsym(RTLD_NEXT, "sqlite3_close_v2");
    forget(db);
    return real(db);
}
extern "C" int sqlite3_step(sqlite3_stmt* stmt)
{
    static int (*real)(sqlite3_stmt*) = nullptr;
    if (!real) real = (int (*)(sqlite3_stmt*))dlsym(RTLD_NEXT, "sqlite3_step");
    sql_ctl.vm_used = 0;
    if (sql_ctl.armed && !sqlite3_stmt_busy(stmt))
    {
        long idx = sql_ctl.execs++;
        if (!sqlite3_stmt_readonly(stmt)) ++sql_ctl.writes;
        if (sql_ctl.log_sql)
        {
            const char* sql = sqlite3_sql(stmt);
            sql_ctl.log.push_back(sql ? sql : "?");
        }
        if (idx == sql_ctl.fault_at)
        {
            ++sql_ctl.faults_delivered;
            if (sql_ctl.fault_kind == 1) return SQLITE_FULL;
            if (sql_ctl.fault_kind == 2) sql_ctl.interrupt_now = true;
        }
    }
    if (sql_ctl.interrupt_now)
    {
        // F2: poll the progress handler at every VM instruction for this one step, so that even a short statement is interrupted inside SQLite
        sqlite3* db = sqlite3_db_handle(stmt);
        sqlite3_progress_handler(db, 1, progress_cb, nullptr);
        int rc2 = real(stmt);
        sqlite3_progress_handler(db, 1000, progress_cb, nullptr);
        if (sql_ctl.interrupt_now) { sql_ctl.interrupt_now = false; --sql_ctl.faults_delivered; }  // the statement finished before the handler was polled
        return rc2;
    }
    int rc = real(stmt);
    return rc;
}
