#include <cstdio>
#include <cstdlib>
#include <cstring>
#include <iostream>

#include "core.hpp"

using namespace vx;

static const CheckDef* find_check(const std::string& id)
{
    for (auto& c : checks())
        if (id == c.id) return &c;
    return nullptr;
}

int main(int argc, char** argv)
{
    setvbuf(stdout, nullptr, _IOLBF, 0);
    if (argc < 2)
    {
        fprintf(stderr, "usage: vx check <id> [--tier quick|thorough] [--jobs N] [--only <case>] | replay <file> | variant <id> <tier> | list\n");
        return 2;
    }
    std::string cmd = argv[1];
    if (cmd == "list")
    {
        for (auto& c : checks()) printf("%s %s %s\n", c.id, c.variant_quick, c.variant_thorough);
        return 0;
    }
    if (cmd == "variant" && argc >= 4)
    {
        auto* c = find_check(argv[2]);
        if (!c) return 2;
        printf("%s\n", std::string(argv[3]) == "thorough" ? c->variant_thorough : c->variant_quick);
        return 0;
    }
    Options o;
    if (const char* e = getenv("VERIF_SEED")) o.seed = atol(e);
    if (const char* e = getenv("VERIF_TIER")) o.tier = e;
    if (const char* e = getenv("VERIF_JOBS")) o.jobs = atoi(e);
    if (cmd == "replay" && argc >= 3)
    {
        Json j = Json::parse(read_file(argv[2]));
        o.property = j.str("property");
        o.only = j.str("case");
        o.replaying = true;
        o.tier = j.str("tier", "quick");
        setenv("VX_REPLAY", "1", 1);
        auto* c = find_check(o.property);
        if (!c) { fprintf(stderr, "unknown property %s\n", o.property.c_str()); return 2; }
        g_tier = o.tier;
        printf("replaying %s case=%s (recorded key=%s)\n", o.property.c_str(), o.only.c_str(), j.str("key").c_str());
        int r = c->run(o);
        printf(r > 0 ? "replay: violation reproduced\n" : r == 0 ? "replay: no violation\n" : "replay: harness error\n");
        return r > 0 ? 1 : r == 0 ? 0 : 3;
    }
    if (cmd == "check" && argc >= 3)
    {
        o.property = argv[2];
        for (int i = 3; i < argc; ++i)
        {
            std::string a = argv[i];
            if (a == "--tier" && i + 1 < argc) o.tier = argv[++i];
            else if (a == "--jobs" && i + 1 < argc) o.jobs = atoi(argv[++i]);
            else if (a == "--only" && i + 1 < argc) o.only = argv[++i];
            else if (a == "--deadline" && i + 1 < argc) o.deadline_s = atof(argv[++i]);
        }
        auto* c = find_check(o.property);
        if (!c) { fprintf(stderr, "unknown property %s\n", o.property.c_str()); return 2; }
        g_tier = o.quick() ? "quick" : "thorough";
        int r;
        try
        {
            r = c->run(o);
        }
        catch (const std::exception& e)
        {
            // Nothing in a check's own (parent-side) code throws on a tree where the property holds; an exception that arrives
            // here comes out of a library call the check relies on (creating a library, listing schemas, ...). Reported as a
            // violation of the property under check, with a replay file that says so.
            Reporter rep(o.property, build_variant());
            rep.add(Violation{"unexpected_exception|parent", std::string("a library call the check relies on threw in the coordinating process: ") + e.what(), "", Json(std::string(e.what()))});
            r = rep.finish();
        }
        if (r < 0) return 3;
        return r > 0 ? 1 : 0;
    }
    fprintf(stderr, "bad command\n");
    return 2;
}
