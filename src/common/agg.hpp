// Worker-side accumulation of counters / violations / samples, merged in the parent.
#pragma once
#include <cstring>
#include <map>
#include <set>
#include <string>

#include "core.hpp"

namespace vx
{
class Agg
{
public:
    std::map<std::string, long long> counters;
    std::vector<Violation> violations;
    std::map<std::string, long long> vcount;  // violations per key (including those not kept)
    std::vector<Json> samples;
    size_t keep_per_key = 3;
    size_t keep_samples = 3;
    Emitter* live = nullptr;  // when set, violations are written out at once (survive a later crash of the worker)

    // distinct-case accounting: workers report 64-bit hashes of the cases they evaluated, the parent merges them into sets
    std::map<std::string, std::vector<uint64_t>> hashes;          // worker side, per class
    std::map<std::string, std::set<uint64_t>> distinct;           // parent side, per class
    void seen(const std::string& cls, uint64_t h) { hashes[cls].push_back(h); }
    void seen(const std::string& cls, const std::string& s) { seen(cls, fnv1a(s.data(), s.size())); }
    long long ndistinct(const std::string& cls) const
    {
        auto it = distinct.find(cls);
        return it == distinct.end() ? 0 : (long long)it->second.size();
    }
    void count(const std::string& name, long long k = 1) { counters[name] += k; }
    void violation(const std::string& key, const std::string& what, const std::string& case_id, Json detail = Json())
    {
        long long& c = vcount[key];
        ++c;
        if ((size_t)c <= keep_per_key)
        {
            Violation v{key, what, case_id, std::move(detail)};
            if (live)
            {
                Json j = Json::object();
                Json vs = Json::array();
                vs.push(Reporter::to_json(v));
                j["violations"] = vs;
                live->emit_json(j);
            }
            else
                violations.push_back(std::move(v));
        }
    }
    void sample(Json j)
    {
        if (samples.size() < keep_samples) samples.push_back(std::move(j));
    }
    // worker -> parent
    void flush(Emitter& em)
    {
        Json j = Json::object();
        Json c = Json::object();
        for (auto& kv : counters) c[kv.first] = kv.second;
        j["counters"] = c;
        Json vc = Json::object();
        for (auto& kv : vcount) vc[kv.first] = kv.second;
        j["vcount"] = vc;
        Json vs = Json::array();
        for (auto& v : violations) vs.push(Reporter::to_json(v));
        j["violations"] = vs;
        Json ss = Json::array();
        for (auto& s : samples) ss.push(s);
        j["samples"] = ss;
        if (!hashes.empty())
        {
            Json hs = Json::object();
            for (auto& kv : hashes) hs[kv.first] = hex(kv.second.data(), kv.second.size() * 8);
            j["hashes"] = hs;
        }
        em.emit_json(j);
        counters.clear(); vcount.clear(); violations.clear(); samples.clear(); hashes.clear();
    }
    // parent: merge a line produced by flush()
    void merge_line(const std::string& line, Reporter& rep)
    {
        Json j = Json::parse(line);
        if (j.has("harness_exception"))
        {
            const std::string tn = j.has("type") ? j.str("type") : std::string();
            const bool from_library = tn.find("djinterop") != std::string::npos || tn.find("sqlite") != std::string::npos || tn == "std::length_error" || tn == "std::out_of_range" ||
                                      tn == "std::invalid_argument" || tn == "std::logic_error" || tn == "std::bad_optional_access" || tn == "std::bad_alloc";
            if (from_library)
            {
                counters["unexpected_library_exceptions"]++;
                std::string where = j.has("label") && !j.str("label").empty() ? j.str("label") : "task " + std::to_string(j.has("task") ? (long long)j.find("task")->i : -1);
                std::string key = "unexpected_exception|" + tn;
                vcount[key]++;
                rep.add(Violation{key, "a library call the check relies on threw " + tn + ": " + j.str("harness_exception") + " (at " + where + ")", where, Json(j.str("harness_exception"))});
                return;
            }
            counters["harness_exceptions"]++;
            harness_errors.push_back(j.str("harness_exception"));
            return;
        }
        if (auto* c = j.find("counters"))
            for (auto& kv : c->o) counters[kv.first] += kv.second.i;
        if (auto* c = j.find("vcount"))
            for (auto& kv : c->o) vcount[kv.first] += kv.second.i;
        if (auto* v = j.find("violations"))
            for (auto& x : v->a) rep.add_json(x);
        if (auto* hs = j.find("hashes"))
            for (auto& kv : hs->o)
            {
                std::string raw = unhex(kv.second.s);
                auto& set = distinct[kv.first];
                for (size_t p = 0; p + 8 <= raw.size(); p += 8)
                {
                    uint64_t h;
                    memcpy(&h, raw.data() + p, 8);
                    set.insert(h);
                }
            }
        if (auto* s = j.find("samples"))
            for (auto& x : s->a) if (samples.size() < 12) samples.push_back(x);
    }
    std::vector<std::string> harness_errors;
    long long get(const std::string& k) const
    {
        auto it = counters.find(k);
        return it == counters.end() ? 0 : it->second;
    }
    Json counters_json(const std::string& prefix = "") const
    {
        Json j = Json::object();
        for (auto& kv : counters)
            if (kv.first.rfind(prefix, 0) == 0) j[kv.first.substr(prefix.size())] = kv.second;
        return j;
    }
};
}  // namespace vx
