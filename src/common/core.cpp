#include "core.hpp"
#include <cxxabi.h>

#include <atomic>
#include <csignal>
#include <cstdlib>
#include <cstring>
#include <fcntl.h>
#include <fstream>
#include <iostream>
#include <sys/mman.h>
#include <sys/resource.h>
#include <sys/stat.h>
#include <sys/time.h>
#include <sys/wait.h>
#include <unistd.h>

extern "C" void __sanitizer_print_stack_trace(void) __attribute__((weak));
#include <execinfo.h>

// Sanitizer defaults: abort (SIGABRT) on error so the supervisor sees a signal,
// no leak checking (workers exit with _exit), ASan must not own SIGABRT.
extern "C" const char* __asan_default_options()
{
    return "abort_on_error=1:detect_leaks=0:allocator_may_return_null=1:handle_abort=0:"
           "detect_stack_use_after_return=0:max_malloc_fill_size=0:malloc_context_size=8:"
           "detect_container_overflow=1:print_summary=1:symbolize=1:max_allocation_size_mb=256:alloc_dealloc_mismatch=0";
}
extern "C" const char* __ubsan_default_options()
{
    return "print_stacktrace=1:abort_on_error=1:halt_on_error=1:symbolize=1";
}

#if defined(__SANITIZE_ADDRESS__)
// Under ASan `operator new` of an absurd size aborts the process instead of throwing, which the real allocator never does.
// The harness therefore provides operator new on top of (ASan's) malloc: redzones and use-after-free detection are kept,
// and an allocation that cannot be satisfied (> max_allocation_size_mb) throws std::bad_alloc exactly like glibc.
#include <new>
void* operator new(std::size_t n)
{
    void* p = malloc(n ? n : 1);
    if (!p) throw std::bad_alloc();
    return p;
}
void* operator new[](std::size_t n) { return operator new(n); }
void* operator new(std::size_t n, const std::nothrow_t&) noexcept { return malloc(n ? n : 1); }
void* operator new[](std::size_t n, const std::nothrow_t&) noexcept { return malloc(n ? n : 1); }
void operator delete(void* p) noexcept { free(p); }
void operator delete[](void* p) noexcept { free(p); }
void operator delete(void* p, std::size_t) noexcept { free(p); }
void operator delete[](void* p, std::size_t) noexcept { free(p); }
#endif

namespace vx
{
std::string hex(const void* p, size_t n)
{
    static const char* d = "0123456789abcdef";
    std::string r;
    r.reserve(n * 2);
    auto* b = (const unsigned char*)p;
    for (size_t i = 0; i < n; ++i)
    {
        r += d[b[i] >> 4];
        r += d[b[i] & 15];
    }
    return r;
}
std::string hex(const std::string& s) { return hex(s.data(), s.size()); }
std::string unhex(const std::string& h)
{
    std::string r;
    auto v = [](char c) { return c <= '9' ? c - '0' : (c | 32) - 'a' + 10; };
    for (size_t i = 0; i + 1 < h.size(); i += 2) r += (char)(v(h[i]) * 16 + v(h[i + 1]));
    return r;
}
uint64_t fnv1a(const void* p, size_t n, uint64_t h)
{
    auto* b = (const unsigned char*)p;
    for (size_t i = 0; i < n; ++i)
    {
        h ^= b[i];
        h *= 1099511628211ull;
    }
    return h;
}
std::string hash128(const std::string& s)
{
    uint64_t a = fnv1a(s.data(), s.size());
    // second, independent hash: multiply-xorshift over 8-byte words
    uint64_t b = 0x9E3779B97F4A7C15ull ^ s.size();
    size_t i = 0;
    for (; i + 8 <= s.size(); i += 8)
    {
        uint64_t w;
        memcpy(&w, s.data() + i, 8);
        b = (b ^ w) * 0xff51afd7ed558ccdull;
        b ^= b >> 32;
    }
    for (; i < s.size(); ++i)
    {
        b = (b ^ (unsigned char)s[i]) * 0xc4ceb9fe1a85ec53ull;
        b ^= b >> 29;
    }
    char buf[40];
    snprintf(buf, sizeof buf, "%016llx%016llx", (unsigned long long)a, (unsigned long long)b);
    return buf;
}
double now_s()
{
    using namespace std::chrono;
    return duration<double>(steady_clock::now().time_since_epoch()).count();
}
std::string read_file(const std::string& path)
{
    std::ifstream f(path, std::ios::binary);
    std::stringstream ss;
    ss << f.rdbuf();
    return ss.str();
}
void write_file(const std::string& path, const std::string& content)
{
    std::ofstream f(path, std::ios::binary | std::ios::trunc);
    f << content;
}
std::string verif_root()
{
    const char* e = getenv("VERIF_ROOT");
    return e ? e : "/verif";
}
std::string repo_root()
{
    const char* e = getenv("VERIF_REPO");
    return e ? e : "/repo";
}
static std::string g_scratch;
static pid_t g_scratch_owner = 0;
static void rm_scratch()
{
    if (!g_scratch.empty() && getpid() == g_scratch_owner)
    {
        std::string cmd = "rm -rf '" + g_scratch + "'";
        if (system(cmd.c_str())) {}
    }
}
std::string scratch_dir()
{
    if (g_scratch.empty())
    {
        g_scratch = "/dev/shm/verif." + std::to_string(getpid());
        mkdir(g_scratch.c_str(), 0700);
        g_scratch_owner = getpid();
        atexit(rm_scratch);
    }
    return g_scratch;
}
std::vector<std::string> split(const std::string& s, char sep)
{
    std::vector<std::string> r;
    std::string cur;
    for (char c : s)
    {
        if (c == sep) { r.push_back(cur); cur.clear(); }
        else cur += c;
    }
    r.push_back(cur);
    return r;
}
std::string join(const std::vector<std::string>& v, const std::string& sep)
{
    std::string r;
    for (size_t i = 0; i < v.size(); ++i)
    {
        if (i) r += sep;
        r += v[i];
    }
    return r;
}
std::string trunc(const std::string& s, size_t n)
{
    if (s.size() <= n) return s;
    return s.substr(0, n) + "...(" + std::to_string(s.size()) + " bytes)";
}

const char* build_variant()
{
#if defined(__SANITIZE_ADDRESS__)
    return "san";
#else
    return "opt";
#endif
}

std::string g_tier = "quick";
int g_substep_timeout_s = 20;
void Sub::at(int64_t k)
{
    slot->store(k, std::memory_order_relaxed);
    if (g_substep_timeout_s > 0) alarm((unsigned)g_substep_timeout_s);
}

// ---------------------------------------------------------------------------
void Emitter::emit(const std::string& line)
{
    std::string rec = std::to_string(idx_) + "\t" + line + "\n";
    const char* p = rec.data();
    size_t left = rec.size();
    while (left)
    {
        ssize_t w = ::write(fd_, p, left);
        if (w <= 0) _exit(97);
        p += w;
        left -= (size_t)w;
    }
}

static void fatal_signal_handler(int sig)
{
    // Print a stack trace (sanitizer runtime symbolises) and die by the signal.
    static volatile sig_atomic_t once = 0;
    if (!once)
    {
        once = 1;
        const char* m = sig == SIGABRT ? "VX-FATAL: SIGABRT\n" : sig == SIGFPE ? "VX-FATAL: SIGFPE\n" : "VX-FATAL: signal\n";
        if (::write(2, m, strlen(m))) {}
        if (__sanitizer_print_stack_trace) __sanitizer_print_stack_trace();
        else
        {
            void* bt[48];
            int n = backtrace(bt, 48);
            backtrace_symbols_fd(bt, n, 2);
        }
    }
    signal(sig, SIG_DFL);
    raise(sig);
}

static void classify(CaseResult& r, const std::string& err)
{
    r.crash_head = trunc(err, 1500);
    auto find_after = [&](const std::string& needle) -> std::string {
        auto p = err.find(needle);
        if (p == std::string::npos) return "";
        p += needle.size();
        auto e = err.find_first_of("\n", p);
        return err.substr(p, e == std::string::npos ? std::string::npos : e - p);
    };
    std::string k;
    if (!(k = find_after("ERROR: AddressSanitizer: ")).empty())
    {
        std::string kind = k.substr(0, k.find_first_of(" :("));
        if (kind == "out-of-memory" || kind == "allocation-size-too-big" || kind == "requested" ||
            kind == "calloc-overflow" || k.find("allocator is out of memory") != std::string::npos ||
            k.find("exceeds maximum supported size") != std::string::npos)
            r.crash_kind = "alloc-limit";
        else
            r.crash_kind = "asan:" + kind;
    }
    else if (err.find("runtime error: ") != std::string::npos)
    {
        std::string m = find_after("runtime error: ");
        // normalise numbers/addresses so the kind is stable
        std::string norm;
        for (char c : m) norm += (isdigit((unsigned char)c) ? '#' : c);
        std::string out;
        for (char c : norm) if (!(c == '#' && !out.empty() && out.back() == '#')) out += c;
        r.crash_kind = "ubsan:" + trunc(out, 80);
    }
    else if (err.find("Assertion '") != std::string::npos && err.find("failed") != std::string::npos)
    {
        r.crash_kind = "glibcxx-assert:" + trunc(find_after("Assertion '"), 60);
        auto q = r.crash_kind.find("' failed");
        if (q != std::string::npos) r.crash_kind.resize(q);
    }
    else if (err.find("terminate called") != std::string::npos)
    {
        std::string t = find_after("terminate called after throwing an instance of '");
        auto q = t.find('\'');
        if (q != std::string::npos) t.resize(q);
        r.crash_kind = "terminate:" + t;
    }
    else if (r.status == CaseResult::TimedOut)
        r.crash_kind = "timeout";
    else
        r.crash_kind = "signal:" + std::to_string(r.signal);
    // innermost djinterop frame
    size_t p = 0;
    while ((p = err.find(" in ", p)) != std::string::npos)
    {
        auto e = err.find('\n', p);
        std::string line = err.substr(p + 4, e == std::string::npos ? std::string::npos : e - p - 4);
        if (line.find("djinterop") != std::string::npos && line.find("vx::") == std::string::npos)
        {
            auto sp = line.find(" /");
            std::string fn = sp == std::string::npos ? line : line.substr(0, sp);
            auto par = fn.find('(');
            if (par != std::string::npos) fn.resize(par);
            r.crash_frame = fn;
            break;
        }
        p += 4;
    }
}

struct Shared
{
    std::atomic<uint64_t> next;
    std::atomic<int64_t> current[64];
    std::atomic<int64_t> sub[64];
    char label[64][1024];
};

#ifdef VX_COVERAGE
extern "C" void __gcov_dump(void);
#endif

static void worker_main(
    int w, size_t n, Shared* sh, int timeout_s, const std::string& dir,
    const std::function<void(size_t, int64_t, Emitter&, Sub&)>& fn, double deadline_abs, int64_t resume_case,
    int64_t resume_from)
{
    std::string outp = dir + "/out." + std::to_string(w);
    std::string errp = dir + "/err." + std::to_string(w);
    int ofd = open(outp.c_str(), O_WRONLY | O_CREAT | O_APPEND, 0600);
    int efd = open(errp.c_str(), O_WRONLY | O_CREAT | O_TRUNC, 0600);
    if (ofd < 0 || efd < 0) _exit(98);
    dup2(efd, 2);
    signal(SIGABRT, fatal_signal_handler);
    signal(SIGFPE, fatal_signal_handler);
#if !defined(__SANITIZE_ADDRESS__)
    signal(SIGSEGV, fatal_signal_handler);
    signal(SIGBUS, fatal_signal_handler);
#endif
    signal(SIGALRM, SIG_DFL);
    for (;;)
    {
        uint64_t i;
        int64_t from = 0;
        if (resume_case >= 0)
        {
            i = (uint64_t)resume_case;
            from = resume_from;
            resume_case = -1;
        }
        else
        {
            if (deadline_abs > 0 && now_s() > deadline_abs) break;
            i = sh->next.fetch_add(1);
            if (i >= n) break;
        }
        sh->sub[w].store(-1);
        sh->current[w].store((int64_t)i);
        if (ftruncate(efd, 0)) {}
        lseek(efd, 0, SEEK_SET);
        alarm(timeout_s);
        Emitter em(ofd, i);
        Sub sub;
        sub.slot = &sh->sub[w];
        sub.label_buf = sh->label[w];
        sh->label[w][0] = 0;
        try
        {
            fn(i, from, em, sub);
        }
        catch (const std::exception& e)
        {
            // an exception nobody in the check expected. If its type is one the library (or its SQLite wrapper) throws, the
            // library has refused or failed something that succeeds on a tree where the property holds: reported as a
            // violation by the parent, not as a harness failure.
            int st = 0;
            char* dn = abi::__cxa_demangle(typeid(e).name(), nullptr, nullptr, &st);
            std::string tn = dn && st == 0 ? dn : typeid(e).name();
            free(dn);
            em.emit(std::string("{\"harness_exception\":") + Json(std::string(e.what())).dump(0) + ",\"type\":" + Json(tn).dump(0) + ",\"task\":" + std::to_string((long long)i) +
                    ",\"label\":" + Json(std::string(sh->label[w])).dump(0) + "}");
        }
        alarm(0);
        em.emit(std::string("#done"));
        sh->current[w].store(-1);
    }
#ifdef VX_COVERAGE
    __gcov_dump();  // coverage measurement builds only (scripts/coverage.sh): workers leave through _exit
#endif
    _exit(0);
}

std::vector<CaseResult> run_pool(
    size_t n, int jobs, int per_case_timeout_s,
    const std::function<void(size_t, Emitter&)>& fn, PoolStats* stats, double deadline_abs,
    bool* deadline_hit)
{
    return run_pool_sub(
        n, jobs, per_case_timeout_s, [&](size_t i, int64_t, Emitter& e, Sub&) { fn(i, e); }, stats, deadline_abs, deadline_hit, 0);
}

std::vector<CaseResult> run_pool_sub(
    size_t n, int jobs, int per_case_timeout_s,
    const std::function<void(size_t, int64_t, Emitter&, Sub&)>& fn, PoolStats* stats, double deadline_abs,
    bool* deadline_hit, size_t max_resumes)
{
    std::vector<CaseResult> res(n);
    if (n == 0) return res;
    if (jobs > 64) jobs = 64;
    if ((size_t)jobs > n) jobs = (int)n;
    static int pool_seq = 0;
    std::string dir = scratch_dir() + "/pool" + std::to_string(pool_seq++);
    mkdir(dir.c_str(), 0700);
    auto* sh = (Shared*)mmap(nullptr, sizeof(Shared), PROT_READ | PROT_WRITE, MAP_SHARED | MAP_ANONYMOUS, -1, 0);
    new (sh) Shared();
    sh->next.store(0);
    for (auto& c : sh->current) c.store(-1);
    for (auto& c : sh->sub) c.store(-1);
    std::map<pid_t, int> pids;
    fflush(stdout);
    fflush(stderr);
    auto spawn = [&](int w, int64_t rc, int64_t rf) {
        pid_t p = fork();
        if (p == 0)
        {
            worker_main(w, n, sh, per_case_timeout_s, dir, fn, deadline_abs, rc, rf);
            _exit(0);
        }
        pids[p] = w;
    };
    for (int w = 0; w < jobs; ++w) spawn(w, -1, 0);
    std::vector<char> done(n, 0);
    while (!pids.empty())
    {
        int st = 0;
        pid_t p = wait(&st);
        if (p < 0) break;
        auto it = pids.find(p);
        if (it == pids.end()) continue;
        int w = it->second;
        pids.erase(it);
        bool abnormal = !(WIFEXITED(st) && WEXITSTATUS(st) == 0);
        if (abnormal)
        {
            int64_t cur = sh->current[w].load();
            int64_t substep = sh->sub[w].load();
            if (cur >= 0 && (size_t)cur < n && substep >= 0 && res[(size_t)cur].subcrashes.size() < max_resumes)
            {
                // crash inside a sub-step: record it and resume the case after that sub-step
                CaseResult tmp;
                tmp.signal = WIFSIGNALED(st) ? WTERMSIG(st) : 0;
                tmp.status = (tmp.signal == SIGALRM) ? CaseResult::TimedOut : CaseResult::Crashed;
                std::string err = read_file(dir + "/err." + std::to_string(w));
                if (!WIFSIGNALED(st)) err += "\n[exit status " + std::to_string(WEXITSTATUS(st)) + "]";
                classify(tmp, err);
                SubCrash sc;
                sc.substep = substep;
                sc.timeout = tmp.status == CaseResult::TimedOut;
                sc.kind = tmp.crash_kind;
                sc.frame = tmp.crash_frame;
                sc.head = tmp.crash_head;
                sh->label[w][1023] = 0;
                sc.label = sh->label[w];
                res[(size_t)cur].subcrashes.push_back(sc);
                sh->current[w].store(-1);
                spawn(w, cur, substep + 1);
                continue;
            }
            if (cur >= 0 && (size_t)cur < n)
            {
                CaseResult& r = res[(size_t)cur];
                r.signal = WIFSIGNALED(st) ? WTERMSIG(st) : 0;
                r.status = (r.signal == SIGALRM) ? CaseResult::TimedOut : CaseResult::Crashed;
                std::string err = read_file(dir + "/err." + std::to_string(w));
                if (!WIFSIGNALED(st)) err += "\n[exit status " + std::to_string(WEXITSTATUS(st)) + "]";
                classify(r, err);
                sh->current[w].store(-1);
            }
            else if (cur < 0)
            {
                fprintf(stderr, "vx: worker %d died outside a case (status %d)\n", w, st);
            }
            if (sh->next.load() < n && !(deadline_abs > 0 && now_s() > deadline_abs)) spawn(w, -1, 0);
        }
    }
    // collect outputs
    for (int w = 0; w < jobs; ++w)
    {
        std::ifstream f(dir + "/out." + std::to_string(w));
        std::string line;
        while (std::getline(f, line))
        {
            auto t = line.find('\t');
            if (t == std::string::npos) continue;
            size_t idx = std::stoull(line.substr(0, t));
            if (idx >= n) continue;
            std::string payload = line.substr(t + 1);
            if (payload == "#done") { done[idx] = 1; continue; }
            res[idx].lines.push_back(std::move(payload));
        }
    }
    size_t ndone = 0;
    for (size_t i = 0; i < n; ++i)
    {
        if (done[i] || res[i].status != CaseResult::Ok) ++ndone;
    }
    if (deadline_hit) *deadline_hit = ndone < n;
    if (stats)
    {
        stats->cases += ndone;
        for (auto& r : res)
        {
            if (r.status == CaseResult::Crashed) stats->crashed++;
            if (r.status == CaseResult::TimedOut) stats->timed_out++;
        }
    }
    // mark unfinished cases (deadline) distinctly
    for (size_t i = 0; i < n; ++i)
        if (!done[i] && res[i].status == CaseResult::Ok) res[i].crash_kind = "not-run";
    munmap(sh, sizeof(Shared));
    std::string cmd = "rm -rf '" + dir + "'";
    if (system(cmd.c_str())) {}
    return res;
}

CaseResult run_isolated(int timeout_s, const std::function<void(Emitter&)>& fn)
{
    auto v = run_pool(1, 1, timeout_s, [&](size_t, Emitter& e) { fn(e); });
    return v[0];
}

// ---------------------------------------------------------------------------
Reporter::Reporter(const std::string& property, const std::string& variant) : property_(property), variant_(variant)
{
    std::ifstream f(verif_root() + "/known_findings.txt");
    std::string line;
    while (std::getline(f, line))
    {
        if (line.rfind("known:", 0) != 0) continue;
        // known: property=C07 key=<key> :: text
        auto pp = line.find("property=");
        auto kp = line.find(" key=");
        auto tp = line.find(" :: ");
        if (pp == std::string::npos || kp == std::string::npos) continue;
        std::string prop = line.substr(pp + 9, line.find(' ', pp) - pp - 9);
        if (prop != property) continue;
        std::string key = line.substr(kp + 5, tp == std::string::npos ? std::string::npos : tp - kp - 5);
        while (!key.empty() && key.back() == ' ') key.pop_back();
        known_.insert(key);
        known_text_[key] = tp == std::string::npos ? "" : line.substr(tp + 4);
    }
}
Json Reporter::to_json(const Violation& v)
{
    Json j = Json::object();
    j["violation"] = true;
    j["key"] = v.key;
    j["what"] = v.what;
    j["case"] = v.case_id;
    j["detail"] = v.detail;
    return j;
}
void Reporter::add(const Violation& v)
{
    ++total_;
    count_[v.key]++;
    auto it = first_.find(v.key);
    // keep the witness with the shortest case id (simplest-first), ties by text order
    if (it == first_.end()) first_[v.key] = v;
    else if (v.case_id.size() < it->second.case_id.size() ||
             (v.case_id.size() == it->second.case_id.size() && v.case_id < it->second.case_id))
        it->second = v;
}
void Reporter::add_json(const Json& j)
{
    Violation v;
    v.key = j.str("key");
    v.what = j.str("what");
    v.case_id = j.str("case");
    if (auto* d = j.find("detail")) v.detail = *d;
    add(v);
}
int Reporter::finish()
{
    int unlisted = 0;
    std::string rdir = verif_root() + "/replays";
    mkdir(rdir.c_str(), 0755);
    for (auto& kv : first_)
    {
        const Violation& v = kv.second;
        if (known_.count(kv.first))
        {
            ++known_hits_;
            printf("KNOWN-FINDING: property=%s key=%s %s (x%zu; witness %s)\n", property_.c_str(), kv.first.c_str(),
                   trunc(v.what, 300).c_str(), count_[kv.first], trunc(v.case_id, 200).c_str());
            continue;
        }
        ++unlisted;
        Json j = Json::object();
        j["property"] = property_;
        j["variant"] = variant_;
        j["tier"] = g_tier;
        j["key"] = v.key;
        j["what"] = v.what;
        j["case"] = v.case_id;
        j["occurrences"] = count_[kv.first];
        j["detail"] = v.detail;
        std::string path = rdir + "/" + property_ + "-" + hash128(v.key + "|" + v.case_id).substr(0, 12) + ".json";
        write_file(path, j.dump(1) + "\n");
        printf("VIOLATION property=%s replay=%s\n", property_.c_str(), path.c_str());
        printf("  key=%s\n  what=%s\n  case=%s (x%zu)\n", v.key.c_str(), trunc(v.what, 600).c_str(), trunc(v.case_id, 300).c_str(),
               count_[kv.first]);
    }
    fflush(stdout);
    return unlisted;
}

Evidence::Evidence(const Options& o, const std::string& level)
{
    t0_ = now_s();
    j_ = Json::object();
    j_["property_id"] = o.property;
    j_["tier"] = o.quick() ? "quick" : "thorough";
    j_["seed"] = (long long)o.seed;
    j_["level"] = level;
    j_["coverage"] = Json::object();
    j_["coverage"]["samples"] = Json::array();
    j_["assumptions"] = Json::array();
    j_["variant"] = build_variant();
    path_ = verif_root() + "/evidence/" + o.property + ".json";
}
void Evidence::write(int violations, int known)
{
    if (getenv("VX_REPLAY") || getenv("VERIF_NO_EVIDENCE")) return;  // replays / seeded-change runs never overwrite evidence
    j_["wall_s"] = now_s() - t0_;
    j_["violations"] = violations;
    j_["known_findings_hit"] = known;
    mkdir((verif_root() + "/evidence").c_str(), 0755);
    write_file(path_, j_.dump(1) + "\n");
    // a thorough run also leaves a copy that a later quick run does not overwrite
    if (g_tier == "thorough")
    {
        mkdir((verif_root() + "/evidence/thorough").c_str(), 0755);
        write_file(verif_root() + "/evidence/thorough/" + j_.str("property_id") + ".json", j_.dump(1) + "\n");
    }
}

static std::vector<CheckDef>& reg()
{
    static std::vector<CheckDef> r;
    return r;
}
void register_check(const CheckDef& d) { reg().push_back(d); }
const std::vector<CheckDef>& checks() { return reg(); }
}  // namespace vx
