#include "seams.hpp"

#include <dlfcn.h>
#include <zlib.h>

namespace vx::seam
{
InflateCtl inflate_ctl;
}

extern "C" int inflate(z_streamp strm, int flush)
{
    using namespace vx::seam;
    static int (*real)(z_streamp, int) = nullptr;
    if (!real) real = (int (*)(z_streamp, int))dlsym(RTLD_NEXT, "inflate");
    if (!inflate_ctl.armed) return real(strm, flush);
    long idx = inflate_ctl.calls++;
    if (inflate_ctl.horizon > 0 && inflate_ctl.calls > inflate_ctl.horizon) throw HorizonExceeded{"inflate", inflate_ctl.calls};
    if (idx == inflate_ctl.fault_at) { ++inflate_ctl.faults_delivered; return inflate_ctl.fault_rc; }
    if (idx == inflate_ctl.fault_at2) { ++inflate_ctl.faults_delivered; return inflate_ctl.fault_rc2; }
    return real(strm, flush);
}
