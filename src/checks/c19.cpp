// C19 — Recommended waveform extents cover the track exactly.
// Shape (I): bounded-exhaustive enumeration of (sample_count, sample_rate)
// against an integer reference model computed with unsigned __int128.
#include <algorithm>
#include <cmath>
#include <cstring>

#include <djinterop/engine/engine.hpp>

#include "common/agg.hpp"
#include "common/core.hpp"

using namespace vx;
namespace e = djinterop::engine;
typedef unsigned __int128 u128;
typedef unsigned long long ull;

namespace
{
std::string dhex(double d)
{
    char b[64];
    snprintf(b, sizeof b, "%a", d);
    return b;
}
std::string case_id(ull count, double rate) { return "count=" + std::to_string(count) + ";rate=" + dhex(rate); }

// Reference: q = 2 * floor(floor(rate) / 210), over the integers.
ull ref_q(double rate)
{
    double f = std::floor(rate);
    ull r = (ull)f;  // rate in [0, 2^31]
    return 2 * (r / 210);
}

struct Pt
{
    Agg& a;
    void fail(const char* key, ull count, double rate, const std::string& what, const djinterop::waveform_extents& got)
    {
        Json d = Json::object();
        d["count"] = std::to_string(count);
        d["rate"] = rate;
        d["q_reference"] = (long long)ref_q(rate);
        d["observed_size"] = std::to_string(got.size);
        d["observed_samples_per_entry"] = got.samples_per_entry;
        a.violation(key, what, case_id(count, rate), d);
    }
    // All oracles at one point; `mono` also compares with count+1.
    void check(ull count, double rate, bool mono = true)
    {
        const ull q = ref_q(rate);
        const auto h = e::calculate_high_resolution_waveform_extents(count, rate);
        const auto o = e::calculate_overview_waveform_extents(count, rate);
        a.count("evaluations", 2);
        const bool empty = (count == 0 || q == 0);
        if (empty)
        {
            a.count("outcome.empty");
            if (h.size != 0 || h.samples_per_entry != 0) fail("hires.empty", count, rate, "high-res extents must be empty (no audio or q = 0)", h);
            if (o.size != 0 || o.samples_per_entry != 0) fail("overview.empty", count, rate, "overview extents must be empty (no audio or q = 0)", o);
        }
        else
        {
            a.count("nontrivial");
            if (h.size == 0) fail("hires.empty", count, rate, "high-res extents empty although count > 0 and q > 0", h);
            else
            {
                if (h.samples_per_entry != (double)q) fail("hires.spe", count, rate, "high-res samples_per_entry != quantisation number", h);
                u128 cover = (u128)h.size * q, prev = (u128)(h.size - 1) * q;
                if (!(cover >= count && count > prev))
                    fail("hires.size", count, rate, "high-res size is not the minimal cover: need size*q >= count > (size-1)*q", h);
                a.count(cover == count ? "outcome.hires_exact" : "outcome.hires_slack");
            }
            if (o.size != 1024) fail("overview.size", count, rate, "overview size != 1024", o);
            ull rounded = (count / q) * q;
            // exact division by 1024 in binary floating point
            double expect = (double)rounded / 1024.0;
            if (o.samples_per_entry != expect || o.samples_per_entry * 1024.0 != (double)rounded)
                fail("overview.spe", count, rate, "overview samples_per_entry*1024 != count rounded down to q", o);
            a.count(rounded == 0 ? "outcome.overview_zero_span" : "outcome.overview_span");
        }
        if (mono && count < (1ull << 62))
        {
            const auto h2 = e::calculate_high_resolution_waveform_extents(count + 1, rate);
            const auto o2 = e::calculate_overview_waveform_extents(count + 1, rate);
            a.count("evaluations", 2);
            if (h2.size < h.size) fail("monotone.hires", count, rate, "high-res size decreases from count to count+1", h2);
            if (o2.size < o.size) fail("monotone.overview", count, rate, "overview size decreases from count to count+1", o2);
            if (o2.samples_per_entry < o.samples_per_entry)
                fail("monotone.overview_span", count, rate, "overview span decreases from count to count+1", o2);
        }
    }
};

std::vector<ull> counts_for_q(ull q)
{
    std::vector<ull> c = {0, 1, 2, 3};
    auto add = [&](u128 v) {
        if (v <= ((u128)1 << 62)) c.push_back((ull)v);
    };
    if (q)
    {
        for (ull m : {1ull, 2ull, 3ull, 1023ull, 1024ull, 1025ull, 4096ull})
            for (int d = -1; d <= 1; ++d) add((u128)m * q + d);
        for (int j : {16, 31, 32, 52, 53, 54, 62})
        {
            u128 p = (u128)1 << j;
            add(p - 1); add(p); add(p + 1);
            u128 m = p / q;
            for (int k = -1; k <= 1; ++k)
                for (int d = -1; d <= 1; ++d)
                    if (m + k >= 1) add((m + k) * q + d);
        }
    }
    else
        for (int j : {16, 31, 32, 53, 62}) add((u128)1 << j);
    std::sort(c.begin(), c.end());
    c.erase(std::unique(c.begin(), c.end()), c.end());
    return c;
}

struct Plan
{
    ull rate_max;      // step 1: all integer rates in [0, rate_max]
    ull q_max;         // step 2: all even q in [0, q_max]
    ull box_q, box_count;  // step 3
};

int run(const Options& o)
{
    Evidence ev(o, "model_checking");
    Reporter rep(o.property, build_variant());
    Agg total;
    if (!o.only.empty())
    {
        // replay: case=count=..;rate=<hexfloat>
        ull count = 0;
        double rate = 0;
        for (auto& kv : split(o.only, ';'))
        {
            if (kv.rfind("count=", 0) == 0) count = strtoull(kv.c_str() + 6, nullptr, 10);
            if (kv.rfind("rate=", 0) == 0) rate = strtod(kv.c_str() + 5, nullptr);
        }
        Agg a;
        Pt{a}.check(count, rate);
        for (auto& v : a.violations)
        {
            printf("  %s: %s %s\n", v.key.c_str(), v.what.c_str(), v.detail.dump(0).c_str());
            rep.add(v);
        }
        return rep.finish();
    }
    const ull QMAX_ALL = 2 * ((1ull << 31) / 210);
    Plan p = o.quick() ? Plan{1ull << 27, 1ull << 21, 400, 8000} : Plan{1ull << 31, QMAX_ALL, 1000, 20000};
    const double t_start = now_s();
    const double deadline = t_start + (o.deadline_s > 0 ? o.deadline_s : (o.quick() ? 240 : 2400));

    // Case list: step 1 chunks over rates, step 2 chunks over q, step 3 chunks over q.
    struct Chunk { int step; ull lo, hi; };
    std::vector<Chunk> chunks;
    const ull RCH = 1ull << 20;
    for (ull lo = 0; lo <= p.rate_max; lo += RCH) chunks.push_back({1, lo, std::min(p.rate_max, lo + RCH - 1)});
    const ull QCH = 1ull << 15;
    for (ull lo = 0; lo <= p.q_max; lo += QCH) chunks.push_back({2, lo, std::min(p.q_max, lo + QCH - 1)});
    for (ull lo = 0; lo <= p.box_q; lo += 50) chunks.push_back({3, lo, std::min(p.box_q, lo + 49)});
    chunks.push_back({4, 0, 0});  // named rates

    bool deadline_hit = false;
    PoolStats st;
    auto res = run_pool(
        chunks.size(), o.jobs, 1200,
        [&](size_t i, Emitter& em) {
            Agg a;
            Pt pt{a};
            const Chunk& c = chunks[i];
            if (c.step == 1)
            {
                for (ull r = c.lo; r <= c.hi; ++r)
                {
                    double rate = (double)r;
                    pt.check(1, rate, false);
                    pt.check(1000003, rate, false);
                    a.count("rates");
                    ull m = r % 210;
                    bool near210 = m <= 2 || m >= 208;
                    bool nearpow2 = r >= 4 && (((r + 2) & (r + 1)) == 0 || ((r + 1) & r) == 0 || (r & (r - 1)) == 0 || ((r - 1) & (r - 2)) == 0);
                    if (near210 || nearpow2)
                    {
                        pt.check(1000003, rate + 0.5, false);
                        pt.check(1000003, std::nextafter(rate + 1.0, 0.0), false);
                        a.count("fractional_rates", 2);
                    }
                }
                if (a.samples.empty()) a.sample(Json("step1 all integer rates " + std::to_string(c.lo) + ".." + std::to_string(c.hi) + " x count in {1,1000003}"));
            }
            else if (c.step == 2)
            {
                for (ull q = c.lo & ~1ull; q <= c.hi; q += 2)
                {
                    double rate = (double)(q / 2 * 210);
                    double rate_hi = (double)(q / 2 * 210 + 209) + 0.75;
                    if (rate_hi > 2147483648.0) rate_hi = rate;
                    for (ull cnt : counts_for_q(q))
                    {
                        pt.check(cnt, rate);
                        pt.check(cnt, rate_hi, false);
                    }
                    a.count("q_classes");
                }
                ull q = c.lo & ~1ull;
                Json s = Json::object();
                s["q"] = (long long)q;
                s["rate"] = (double)(q / 2 * 210);
                std::string cs;
                for (ull cnt : counts_for_q(q)) cs += std::to_string(cnt) + " ";
                s["counts"] = cs;
                a.sample(s);
            }
            else if (c.step == 3)
            {
                for (ull q = c.lo & ~1ull; q <= c.hi; q += 2)
                    for (ull cnt = 0; cnt <= p.box_count; ++cnt) pt.check(cnt, (double)(q / 2 * 210));
                a.count("box_q_classes", (long long)((c.hi - (c.lo & ~1ull)) / 2 + 1));
            }
            else
            {
                for (double rate : {8000.0, 11025.0, 16000.0, 22050.0, 32000.0, 44100.0, 48000.0, 88200.0, 96000.0, 176400.0, 192000.0, 352800.0, 384000.0,
                                    768000.0, 209.0, 209.999, 210.0, 419.0, 420.0, 0.0, 0.5, 2147483648.0, 2147483647.5})
                    for (ull cnt = 0; cnt <= 30000; ++cnt) pt.check(cnt, rate);
            }
            a.flush(em);
        },
        &st, deadline, &deadline_hit);

    size_t done_chunks = 0;
    for (size_t i = 0; i < res.size(); ++i)
    {
        auto& r = res[i];
        if (r.status != CaseResult::Ok)
        {
            Violation v;
            v.key = "crash:" + r.crash_kind;
            v.what = "evaluation chunk died: " + r.crash_kind + " in " + r.crash_frame;
            v.case_id = "chunk step=" + std::to_string(chunks[i].step) + " lo=" + std::to_string(chunks[i].lo);
            v.detail = Json(r.crash_head);
            rep.add(v);
            continue;
        }
        if (r.crash_kind == "not-run") continue;
        ++done_chunks;
        for (auto& l : r.lines) total.merge_line(l, rep);
    }
    auto& c = ev.cov();
    const bool exhaustive = !deadline_hit && done_chunks == chunks.size();
    c["evaluations"] = total.get("evaluations");
    c["distinct_nontrivial"] = total.get("nontrivial");
    c["rule"] =
        "Points (count, rate) enumerated completely within the bounds below; a point is non-trivial when count > 0 and the quantisation number q > 0 "
        "(the non-empty branch of both functions and every cover/rounding oracle is exercised). Points are generated without repetition inside a step.";
    c["states"] = total.get("nontrivial") + total.get("outcome.empty");
    c["transitions"] = total.get("evaluations");
    c["traces_validated_against_impl"] = total.get("nontrivial") + total.get("outcome.empty");
    c["exhaustive"] = exhaustive;
    Json b = Json::object();
    b["step1_all_integer_rates_upto"] = (long long)p.rate_max;
    b["step2_all_q_classes_upto"] = (long long)p.q_max;
    b["step3_box"] = "q <= " + std::to_string(p.box_q) + " x count in [0," + std::to_string(p.box_count) + "]";
    b["chunks_total"] = (long long)chunks.size();
    b["chunks_completed"] = (long long)done_chunks;
    b["deadline_hit"] = deadline_hit;
    c["bounds"] = b;
    c["counters"] = total.counters_json();
    c["distinct_outcomes"] = total.counters_json("outcome.");
    for (auto& s : total.samples) ev.sample(s);
    ev.assumption("IEEE-754 binary64 doubles; reference arithmetic in unsigned __int128; built with UBSan (-fno-sanitize-recover) so signed overflow / bad casts abort");
    ev.assumption("sample counts restricted to [0, 2^62], rates to finite values in [0, 2^31] as in the property");
    for (auto& h : total.harness_errors) fprintf(stderr, "harness error: %s\n", h.c_str());
    int bad = rep.finish();
    if (!total.harness_errors.empty()) bad = -1;
    ev.write(bad < 0 ? 0 : bad, rep.known_hits());
    printf("C19 %s: evaluations=%lld nontrivial=%lld chunks=%zu/%zu exhaustive=%d wall=%.1fs\n", o.tier.c_str(), total.get("evaluations"),
           total.get("nontrivial"), done_chunks, chunks.size(), (int)exhaustive, now_s() - t_start);
    return bad;
}
Registrar reg({"C19", "opt", "opt", run});
}  // namespace
