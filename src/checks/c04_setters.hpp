#pragma once
#include "common/agg.hpp"
#include "model/world.hpp"
namespace c04s
{
// planted foreign blobs x every single-field setter on one 2.x library
void run_setters(wm::World& w, vx::Agg& a, const std::string& schema_name);
}
