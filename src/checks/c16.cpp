// C16 — observing a library never modifies it. Shape (S): in every distinct state of the composite exploration every
// observing operation is applied twice in a row; answers must be equal, sqlite3_total_changes must not move, the
// canonical dump must be unchanged; for an on-disk copy of the state database_exists / load_database /
// create_or_load_database from a second handle must leave the files byte-identical.
#include <filesystem>
#include <sys/stat.h>
#include <unistd.h>

#include "model/composite.hpp"
#include "model/v2obs.hpp"

namespace
{
using namespace vx;
using namespace wm;

std::string file_digest(const std::string& dir)
{
    std::string out;
    for (const char* f : {"/m.db", "/p.db", "/Database2/m.db", "/m.db-journal", "/p.db-journal", "/Database2/m.db-journal", "/m.db-wal", "/Database2/m.db-wal"})
    {
        struct stat st;
        if (stat((dir + f).c_str(), &st) != 0) continue;
        out += std::string(f) + ":" + std::to_string((long long)st.st_size) + ":" + hash128(read_file(dir + f)) + " ";
    }
    return out;
}

// every entry below a directory with its size (a refused load may not leave so much as an empty file behind)
std::string tree_listing(const std::string& dir)
{
    std::vector<std::string> v;
    std::error_code ec;
    for (auto it = std::filesystem::recursive_directory_iterator(dir, ec); !ec && it != std::filesystem::recursive_directory_iterator(); it.increment(ec))
        v.push_back(it->path().string().substr(dir.size()) + (it->is_directory() ? "/" : ":" + std::to_string((long long)it->file_size())));
    std::sort(v.begin(), v.end());
    std::string out;
    for (auto& x : v) out += x + " ";
    return out;
}
// every loading / existence entry point, answers and exceptions swallowed
void all_loaders(const std::string& dir)
{
    try { (void)eng::database_exists(dir); } catch (const std::exception&) {}
    try { eng::engine_schema ls{}; auto d = eng::load_database(dir, ls); (void)d.uuid(); } catch (const std::exception&) {}
    try { (void)eng::v2::engine_library::exists(dir); } catch (const std::exception&) {}
    try { auto l = eng::v2::engine_library::load(dir); l.verify(); } catch (const std::exception&) {}
}

// every observing operation of database / crate / track, with existing and non-existing arguments
std::string api_observers(World& w)
{
    std::string out = observe(w, true, true);
    auto g = [&](const std::string& name, const std::function<void(std::ostream&)>& f) {
        out += name + " = " + v2o::guarded_text([&](std::ostream& os) { f(os); }) + "\n";
    };
    g("db.verify", [&](std::ostream& os) { w.db.verify(); os << "ok"; });
    g("db.directory", [&](std::ostream& os) { os << w.db.directory(); });
    g("db.track_by_id(missing)", [&](std::ostream& os) { os << (w.db.track_by_id(987654) ? "found" : "none"); });
    g("db.crate_by_id(missing)", [&](std::ostream& os) { os << (w.db.crate_by_id(987654) ? "found" : "none"); });
    g("db.crates_by_name(missing)", [&](std::ostream& os) { os << w.db.crates_by_name("no such crate").size(); });
    g("db.root_crate_by_name(missing)", [&](std::ostream& os) { os << (w.db.root_crate_by_name("no such crate") ? "found" : "none"); });
    g("db.tracks_by_relative_path(missing)", [&](std::ostream& os) { os << w.db.tracks_by_relative_path("no/such/file.mp3").size(); });
    for (auto& t : w.db.tracks())
    {
        g("db.track_by_id", [&](std::ostream& os) { os << (w.db.track_by_id(t.id()) ? "found" : "none"); });
        g("db.tracks_by_relative_path", [&](std::ostream& os) { os << w.db.tracks_by_relative_path(t.relative_path()).size(); });
        g("track.db.uuid", [&](std::ostream& os) { os << (t.db().uuid() == w.uuid); });
    }
    for (auto& c : w.db.crates())
    {
        g("crate.sub_crate_by_name(missing)", [&](std::ostream& os) { os << (c.sub_crate_by_name("no such crate") ? "found" : "none"); });
        g("db.crates_by_name", [&](std::ostream& os) { os << w.db.crates_by_name(c.name()).size(); });
        g("db.root_crate_by_name", [&](std::ostream& os) { os << (w.db.root_crate_by_name(c.name()) ? "found" : "none"); });
        g("crate.db.uuid", [&](std::ostream& os) { os << (c.db().uuid() == w.uuid); });
    }
    // stale handles too
    for (size_t k = 0; k < w.tracks.size(); ++k)
        if (!w.tracks[k].is_valid()) out += "stale " + observe_track(w.tracks[k], true);  // every getter on the handle of a removed track
    for (size_t k = 0; k < w.crates.size(); ++k)
        if (!w.crates[k].is_valid()) g("stale_crate.children", [&](std::ostream& os) { os << w.crates[k].children().size(); });
    if (w.lib2) out += v2o::observe_tables(w);
    return out;
}

// 2.x: every optional column of a track set to NULL through the table API (states the high-level API never produces)
void op_tt_null(World& w, const Op& op)
{
    // on-disk worlds are opened through eng::create_database / load_database and have no engine_library object: open a second one
    std::shared_ptr<eng::v2::engine_library> lib = w.lib2 ? w.lib2 : std::make_shared<eng::v2::engine_library>(eng::v2::engine_library::load(w.directory));
    auto tt = lib->track();
    int64_t id = w.tracks.at((size_t)op.i.at(0)).id();
    tt.set_play_order(id, std::nullopt); tt.set_bpm(id, std::nullopt); tt.set_year(id, std::nullopt); tt.set_bitrate(id, std::nullopt); tt.set_bpm_analyzed(id, std::nullopt);
    tt.set_file_bytes(id, std::nullopt); tt.set_title(id, std::nullopt); tt.set_artist(id, std::nullopt); tt.set_album(id, std::nullopt); tt.set_genre(id, std::nullopt);
    tt.set_comment(id, std::nullopt); tt.set_label(id, std::nullopt); tt.set_composer(id, std::nullopt); tt.set_remixer(id, std::nullopt); tt.set_key(id, std::nullopt);
    tt.set_album_art(id, std::nullopt); tt.set_time_last_played(id, std::nullopt); tt.set_played_indicator(id, std::nullopt); tt.set_streaming_source(id, std::nullopt);
    tt.set_uri(id, std::nullopt); tt.set_third_party_source_id(id, std::nullopt);
    if (w.schema >= eng::engine_schema::schema_2_20_1) tt.set_active_on_load_loops(id, std::nullopt);
}
// 2.x: the opposite corner — every flag column true and every column the high-level API leaves at its default given a value
// (a getter that "consumes" or "normalises" what it reads needs something other than the default to show it)
void op_tt_full(World& w, const Op& op)
{
    std::shared_ptr<eng::v2::engine_library> lib = w.lib2 ? w.lib2 : std::make_shared<eng::v2::engine_library>(eng::v2::engine_library::load(w.directory));
    auto tt = lib->track();
    int64_t id = w.tracks.at((size_t)op.i.at(0)).id();
    tt.set_is_played(id, true); tt.set_is_analyzed(id, true); tt.set_is_available(id, true); tt.set_is_metadata_of_packed_track_changed(id, true);
    tt.set_is_performance_data_of_packed_track_changed(id, true); tt.set_is_metadata_imported(id, true); tt.set_is_beat_grid_locked(id, true); tt.set_explicit_lyrics(id, true);
    tt.set_pdb_import_key(id, 77); tt.set_streaming_flags(id, 5); tt.set_streaming_source(id, std::string("src")); tt.set_uri(id, std::string("uri://x")); tt.set_third_party_source_id(id, 9);
    tt.set_played_indicator(id, 123456); tt.set_album_art(id, std::string("art")); tt.set_play_order(id, 4); tt.set_bpm_analyzed(id, 123.5);
    if (w.schema >= eng::engine_schema::schema_2_20_1) tt.set_active_on_load_loops(id, 3);
}
// a membership row whose track does not exist (the public add_track(int64_t) accepts any id; foreign keys are not enforced)
void op_add_ghost(World& w, const Op& op) { w.crates.at((size_t)op.i.at(0)).add_track((int64_t)987654); }
struct RegisterOps
{
    RegisterOps()
    {
        World::register_op("tt_null", op_tt_null);
        World::register_op("tt_full", op_tt_full);
        World::register_op("add_ghost", op_add_ghost);
    }
} register_ops;

struct Dom : CompositeBase
{
    static std::vector<std::string> seeds(eng::engine_schema s)
    {
        auto v = CompositeBase::seeds(s);
        if (is_v2(s)) v.push_back("@1:create_track(2);tt_null(0)");
        if (is_v2(s)) v.push_back("@1:create_track(2);create_track(0);tt_full(0);tt_full(1)");
        v.push_back("@1:create_track(2);create_track(0);create_root(|g);add_track(0,0);add_ghost(0);add_track(0,1)");  // a dangling entry between two real ones
        return v;
    }
    static bool step(World& w, Model& m, const Op& op, const Outcome& r, Agg& a, const std::string&, bool checking)
    {
        advance(m, op, r, w);
        if (checking) a.count("op." + op.f + (r.ok ? ".ok" : ".rejected"));
        return true;
    }
    static void visit(World& w, Model&, const std::string& cid, Agg& a)
    {
        static int counter = 0;
        const std::string fam = w.v2 ? "v2" : "v1";
        auto viol = [&](const std::string& inv, const std::string& what) { a.violation(fam + "|" + inv, "[" + schema_name(w.schema) + "] " + what, cid); };
        bool ok = true;
        // ---- in memory: observers twice
        const std::string d0 = w.dump();
        const long long c0 = w.total_changes();
        std::string o1, o2;
        long writes = 0, execs = 0;
        {
            seam::SqlArm arm;
            o1 = api_observers(w);
            o2 = api_observers(w);
            writes = seam::sql_ctl.writes;
            execs = seam::sql_ctl.execs;
        }
        a.count("observer_statement_executions", execs);
        a.count("observer_non_readonly_statements", writes);
        if (o1 != o2)
        {
            ok = false;
            auto la = split(o1, '\n'), lb = split(o2, '\n');
            std::string diff;
            for (size_t k = 0; k < std::min(la.size(), lb.size()) && diff.empty(); ++k)
                if (la[k] != lb[k]) diff = "first: " + trunc(la[k], 150) + " | second: " + trunc(lb[k], 150);
            viol("repeated_observation_differs", diff);
        }
        if (w.total_changes() != c0) { ok = false; viol("observer_changed_rows", "sqlite3_total_changes moved by " + std::to_string(w.total_changes() - c0) + " during observation (" + std::to_string(writes) + " non-read-only statements)"); }
        if (w.dump() != d0) { ok = false; viol("observer_changed_database", "database content differs after observation"); }
        // ---- on disk: a second handle
        const std::string dir = scratch_dir() + "/c16." + std::to_string(getpid()) + "." + std::to_string(counter++);
        try
        {
            {
                World wd(w.schema, dir, 0);
                for (auto& op : parse_history(cid.substr(cid.find('|') + 1))) (void)wd.apply(op);
            }
            const std::string f0 = file_digest(dir);
            (void)eng::database_exists(dir);
            if (file_digest(dir) != f0) { ok = false; viol("database_exists_modified_files", "files changed by database_exists(): " + f0 + " -> " + file_digest(dir)); }
            {
                World wl(w.schema, dir, 1);
                (void)api_observers(wl);
                (void)api_observers(wl);
            }
            if (file_digest(dir) != f0) { ok = false; viol("load_and_observe_modified_files", "files changed by load_database() + observation: " + f0 + " -> " + file_digest(dir)); }
            {
                bool created = false;
                auto db = eng::create_or_load_database(dir, w.schema, created);
                db.verify();
            }
            if (file_digest(dir) != f0) { ok = false; viol("create_or_load_modified_files", "files changed by create_or_load_database() + verify(): " + f0 + " -> " + file_digest(dir)); }
            // every loader and existence test, accepted or refused (the 2.x library object refuses a legacy directory), on the library's directory
            {
                const std::string t0 = tree_listing(dir);
                all_loaders(dir);
                all_loaders(dir);
                if (file_digest(dir) != f0 || tree_listing(dir) != t0) { ok = false; viol("loaders_modified_files", "directory changed by the loaders / existence tests: " + t0 + " -> " + tree_listing(dir)); }
            }
            // and, once per schema, on directories that hold no library at all: a refused load is still an observation
            if (cid.substr(cid.find('|') + 1).empty())
            {
                for (int kind = 0; kind < 3; ++kind)
                {
                    const std::string nd = dir + ".none" + std::to_string(kind);
                    std::filesystem::create_directories(kind == 1 ? nd + "/Database2" : nd);
                    if (kind == 2) write_file(nd + "/p.db", "");
                    const std::string t0 = tree_listing(nd);
                    all_loaders(nd);
                    all_loaders(nd);
                    if (tree_listing(nd) != t0) { ok = false; viol("refused_load_modified_directory", std::string("directory without a library (") + (kind == 0 ? "empty" : kind == 1 ? "empty Database2 directory" : "p.db only") + ") changed by the loaders / existence tests: " + t0 + " -> " + tree_listing(nd)); }
                    std::filesystem::remove_all(nd);
                    a.count("no_library_directories_probed");
                }
            }
        }
        catch (const std::exception& e)
        {
            ok = false;
            viol("on_disk_observation_throws", e.what());
        }
        if (system(("rm -rf '" + dir + "'").c_str())) {}
        a.count("evaluations");
        if (ok) a.count("validated");
        a.seen("nontrivial", d0);
    }
};

int run(const Options& o)
{
    Evidence ev(o, "model_checking");
    Reporter rep(o.property, build_variant());
    Agg total;
    const double t0 = now_s();
    if (!o.only.empty())
    {
        auto r = run_isolated(120, [&](Emitter& em) {
            Agg a;
            auto sch = schema_by_name(o.only.substr(0, o.only.find('|')));
            World w(*sch);
            Dom::Model m;
            ex::rebuild<Dom>(w, m, parse_history(o.only.substr(o.only.find('|') + 1)), a);
            Dom::visit(w, m, o.only, a);
            a.flush(em);
        });
        for (auto& l : r.lines) total.merge_line(l, rep);
        if (r.status != CaseResult::Ok) rep.add(Violation{"crash:" + r.crash_kind, "died: " + r.crash_kind + " in " + r.crash_frame, o.only, Json(r.crash_head)});
        for (auto& kv : rep.firsts()) printf("  %s: %s\n", kv.first.c_str(), kv.second.what.c_str());
        return rep.finish();
    }
    ex::Cfg cfg;
    cfg.schemas = all_schemas();
    if (const char* e = getenv("VX_SCHEMAS"))
    {
        cfg.schemas.clear();
        for (auto& n : split(e, ','))
            if (auto s = schema_by_name(n)) cfg.schemas.push_back(*s);
    }
    cfg.depth = o.quick() ? 2 : 3;
    if (const char* e = getenv("VX_DEPTH")) cfg.depth = atoi(e);
    cfg.visit_states = true;
    cfg.check_restore = false;
    cfg.deadline_abs = t0 + (o.deadline_s > 0 ? o.deadline_s : (o.quick() ? 280 : 3000));
    auto st = ex::explore<Dom>(o, cfg, rep, total);
    rep.set_counts(total.vcount);
    bool exhaustive = !st.deadline_hit;
    for (auto& kv : st.depth_by_schema)
        if (kv.second < cfg.depth) exhaustive = false;
    auto& c = ev.cov();
    c["states"] = st.states;
    c["transitions"] = st.transitions;
    c["traces_validated_against_impl"] = total.get("validated");
    c["evaluations"] = total.get("evaluations");
    c["distinct_nontrivial"] = total.ndistinct("nontrivial");
    c["rule"] =
        "Every distinct state of the composite exploration (depth 2 quick / 3 thorough, all 18 schemas, three seeds incl. removed tracks and crates with their stale handles retained). In each "
        "state the whole observing surface is applied twice in a row: every track getter and snapshot(), is_valid/id of live and stale handles, every crate and database listing and lookup with "
        "existing and non-existing arguments, verify(), uuid(), version_name(), directory(), db() of handles, and on 2.x the table API reads (track_table get / exists / all_ids / every per-column "
        "getter / find_id_by_path, playlist_table get / exists / all_ids / root_ids / child_ids / descendant_ids / find_*, playlist_entity_table get / get_for_list / track_ids, "
        "information_table get). Oracle: both answers equal, sqlite3_total_changes unchanged, canonical dump unchanged; on an on-disk copy of the state, database_exists(), every loader and existence test of both public loading interfaces (accepted or refused; also on an empty directory, an empty Database2 directory and a p.db-only directory, whose recursive listing must not change), load_database() + the "
        "same observers twice, and create_or_load_database() + verify() from fresh handles leave size and hash of m.db / p.db / Database2/m.db unchanged and no journal or WAL file behind.";
    c["exhaustive"] = exhaustive;
    Json b = Json::object();
    b["depth"] = cfg.depth;
    Json dbs = Json::object();
    for (auto& kv : st.depth_by_schema) dbs[kv.first] = kv.second;
    b["depth_completed_by_schema"] = dbs;
    b["deadline_hit"] = st.deadline_hit;
    c["bounds"] = b;
    c["counters"] = total.counters_json();
    for (auto& h : st.sample_histories) ev.sample(Json(h));
    if (st.sample_histories.empty()) ev.sample(Json("(none)"));
    ev.assumption("the verdict is on database content (total_changes, dump, file hash); the number of non-read-only statements issued by observers is reported as information only (counters.observer_non_readonly_statements)");
    for (auto& h : total.harness_errors) fprintf(stderr, "harness error: %s\n", h.c_str());
    int bad = rep.finish();
    if (!total.harness_errors.empty()) bad = -1;
    ev.write(bad < 0 ? 0 : bad, rep.known_hits());
    printf("C16 %s: states=%lld observed=%lld validated=%lld exhaustive=%d wall=%.1fs\n", o.tier.c_str(), st.states, total.get("evaluations"), total.get("validated"), (int)exhaustive, now_s() - t0);
    return bad;
}
Registrar reg({"C16", "san", "opt", run});
}  // namespace
