// C05 — decoders and the decompression routine are memory-safe and terminate on arbitrary bytes.
// Shapes (I) + (E): exhaustive short strings, every truncation / single-byte corruption / count boundary value of valid
// frames and payloads, and every single (and, for short streams, every pair of) forced zlib answer(s).
// Runs under ASan + UBSan + libstdc++ assertions; each input is a sub-step of a forked worker, so a crash is attributed
// to the exact input and the enumeration resumes after it.
#include <zlib.h>

#include "codec_run.hpp"

namespace
{
using namespace vx;
using namespace cod;
namespace eng = djinterop::engine;

constexpr int NUM_ENTRIES = 12;  // 0 = zlib_uncompress, 1..11 = the codecs in cod:: order
std::string entry_name(int e) { return e == 0 ? "zlib_uncompress" : codec_name(e - 1); }
bool entry_framed(int e)
{
    if (e == 0) return true;
    bool f = true;
    with_codec(e - 1, [&](auto tag) { f = decltype(tag)::type::framed; });
    return f;
}
void call_entry(int e, const ByteVec& in)
{
    if (e == 0)
    {
        (void)eng::zlib_uncompress(in);
        return;
    }
    with_codec(e - 1, [&](auto tag) { (void)decltype(tag)::type::dec(in); });
}

struct Input
{
    int entry;
    Bytes bytes;
    std::string desc;
    long fault_at = -1, fault_at2 = -1;
    int fault_rc = 0, fault_rc2 = 0;
};

// One evaluation. Returns outcome class.
void evaluate(Agg& a, const Input& in, const std::string& cid, const std::string& layer)
{
    a.count("evaluations");
    const std::string en = entry_name(in.entry);
    std::string outcome;
    long calls = 0;
    try
    {
        seam::InflateArm arm(inflate_horizon(in.bytes.size()));
        seam::inflate_ctl.fault_at = in.fault_at;
        seam::inflate_ctl.fault_rc = in.fault_rc;
        seam::inflate_ctl.fault_at2 = in.fault_at2;
        seam::inflate_ctl.fault_rc2 = in.fault_rc2;
        try
        {
            call_entry(in.entry, to_v(in.bytes));
            outcome = "returned";
        }
        catch (const std::exception&)
        {
            outcome = "std_exception";
        }
        calls = seam::inflate_ctl.calls;
    }
    catch (const seam::HorizonExceeded& h)
    {
        Json d = Json::object();
        d["entry"] = en;
        d["input_hex"] = hex(in.bytes.substr(0, 200));
        d["input_size"] = (long long)in.bytes.size();
        d["what"] = in.desc;
        a.violation(en + ":" + layer + ":does_not_terminate", en + " loops: inflate() called " + std::to_string(h.calls) + " times on a " + std::to_string(in.bytes.size()) + "-byte input (" + in.desc + ")", cid, d);
        outcome = "nonterminating";
    }
    catch (...)
    {
        a.violation(en + ":" + layer + ":non_std_exception", en + " threw something not derived from std::exception (" + in.desc + ")", cid);
        outcome = "non_std_exception";
    }
    (void)calls;
    a.count("outcome." + outcome);
    a.count("layer." + layer);
    if (outcome == "returned") a.seen("accepted", en + in.bytes);
}

// ---------------------------------------------------------------------------------------------------- seeds
Bytes pattern(size_t n, int kind)
{
    Bytes p(n, '\0');
    if (kind == 1)
        for (size_t i = 0; i < n; ++i) p[i] = "the quick brown fox "[i % 20];
    if (kind == 2)
    {
        uint64_t x = 0x9E3779B97F4A7C15ull;
        for (size_t i = 0; i < n; ++i)
        {
            x ^= x << 13; x ^= x >> 7; x ^= x << 17;
            p[i] = (char)(x >> 32);
        }
    }
    return p;
}
struct Seed { Bytes payload, z; std::string name; };
std::vector<Seed> frame_seeds(bool thorough)
{
    std::vector<Seed> out;
    std::vector<size_t> sizes = {0, 1, 27, 44, 129, 16383, 16384, 16385, 32768};
    if (thorough) { sizes.push_back(65536); sizes.push_back(100000); }
    for (size_t n : sizes)
        for (int kind = 0; kind < 3; ++kind)
        {
            if (n <= 1 && kind > 0) continue;
            Seed s;
            s.payload = pattern(n, kind);
            s.z = ref::deflate_only(s.payload);
            s.name = std::to_string(n) + (kind == 0 ? "z" : kind == 1 ? "t" : "r");
            out.push_back(s);
        }
    return out;
}
Bytes raw_deflate(const Bytes& p)
{
    z_stream zs{};
    deflateInit2(&zs, Z_DEFAULT_COMPRESSION, Z_DEFLATED, -15, 8, Z_DEFAULT_STRATEGY);
    Bytes out(compressBound((uLong)p.size()) + 64, '\0');
    zs.next_in = (Bytef*)p.data(); zs.avail_in = (uInt)p.size();
    zs.next_out = (Bytef*)&out[0]; zs.avail_out = (uInt)out.size();
    deflate(&zs, Z_FINISH);
    out.resize(zs.total_out);
    deflateEnd(&zs);
    return out;
}
Bytes dict_stream(const Bytes& p)
{
    z_stream zs{};
    deflateInit(&zs, Z_DEFAULT_COMPRESSION);
    static const char dict[] = "the quick brown fox";
    deflateSetDictionary(&zs, (const Bytef*)dict, sizeof dict - 1);
    Bytes out(compressBound((uLong)p.size()) + 64, '\0');
    zs.next_in = (Bytef*)p.data(); zs.avail_in = (uInt)p.size();
    zs.next_out = (Bytef*)&out[0]; zs.avail_out = (uInt)out.size();
    deflate(&zs, Z_FINISH);
    out.resize(zs.total_out);
    deflateEnd(&zs);
    return out;
}
std::vector<int32_t> headers_for(size_t n) { return {0, 1, (int32_t)n - 1, (int32_t)n, (int32_t)n + 1, INT32_MAX, -1, INT32_MIN}; }

// positions of a stream at which bytes are corrupted / cut when it is too long to do all of them
std::vector<size_t> interesting_positions(size_t n, size_t all_below)
{
    std::vector<size_t> pos;
    if (n <= all_below) { for (size_t i = 0; i < n; ++i) pos.push_back(i); return pos; }
    std::set<size_t> s;
    for (size_t i = 0; i < 16 && i < n; ++i) { s.insert(i); s.insert(n - 1 - i); }
    for (size_t m = 16384; m < n + 8; m += 16384)
        for (long d = -6; d <= 6; ++d)
            if ((long)m + d >= 0 && (size_t)((long)m + d) < n) s.insert((size_t)((long)m + d));
    return std::vector<size_t>(s.begin(), s.end());
}

// ---------------------------------------------------------------------------------------------------- payload bases
struct Base { int entry; Bytes payload; ref::Layout layout; std::string name; };
std::vector<Base> payload_bases()
{
    std::vector<Base> out;
    for (int ci = 0; ci < NUM_CODECS; ++ci)
        with_codec(ci, [&](auto tag) {
            using T = typename decltype(tag)::type;
            auto sizes = field_sizes<T>(false);
            // base value, an all-empty value (first count alphabets' "0" choices) and a value with long labels / more entries
            std::vector<std::vector<int>> choices;
            choices.push_back(std::vector<int>(sizes.size(), 0));
            for (size_t f = 0; f < sizes.size(); ++f)
            {
                // pick deviation 1 on each "count" field candidates: they are the fields with small alphabets 6..10 at the start; keep it simple:
                // a second base with the first field changed to its first alternative (count 0 for list codecs, +0.0 rate otherwise)
                if (f == 0)
                {
                    auto c = choices[0];
                    c[f] = 1;
                    choices.push_back(c);
                }
            }
            for (auto& ch : choices)
            {
                Chooser c;
                c.choice = &ch;
                auto v = T::make(c);
                Base b;
                b.entry = ci + 1;
                b.payload = ref::encode(T::to_ref(v), &b.layout);
                b.name = std::string(T::name) + "/" + choice_str(ch);
                out.push_back(b);
            }
        });
    return out;
}
Bytes frame_for(int entry, const Bytes& payload) { return entry_framed(entry) ? ref::frame(payload) : payload; }

uint64_t get_field(const Bytes& p, const ref::FieldPos& f)
{
    uint64_t v = 0;
    for (size_t i = 0; i < f.size; ++i)
    {
        size_t idx = f.big_endian ? f.off + i : f.off + f.size - 1 - i;
        v = (v << 8) | (unsigned char)p[idx];
    }
    return v;
}
void set_field(Bytes& p, const ref::FieldPos& f, uint64_t v)
{
    for (size_t i = 0; i < f.size; ++i)
    {
        size_t idx = f.big_endian ? f.off + f.size - 1 - i : f.off + i;
        p[idx] = (char)(v & 0xff);
        v >>= 8;
    }
}
std::vector<uint64_t> count_values(const Bytes& p, const ref::FieldPos& f)
{
    uint64_t n = get_field(p, f);
    if (f.size == 1)
    {
        std::vector<uint64_t> v;
        for (int i = 0; i < 256; ++i) v.push_back((uint64_t)i);
        return v;
    }
    return {(uint64_t)INT64_MIN, (uint64_t)-1, 0, 1, n - 1, n, n + 1, n + 2, 0x7fffffffull, 0x80000000ull, 0x100000000ull, 1ull << 61, (uint64_t)INT64_MAX,
            0x0aaaaaaaaaaaaaabull /* 24*x wraps to a small positive */, 0x1555555555555556ull /* 6*x wraps */, 0x2aaaaaaaaaaaaaabull /* 3*x wraps */};
}

// ---------------------------------------------------------------------------------------------------- tasks
struct Task
{
    char layer;  // 'A' short strings, 'B' frame, 'C' payload, 'D' environment
    int a = 0, b = 0, c = 0;
};

struct Ctx
{
    bool thorough;
    std::vector<Seed> seeds;
    std::vector<Base> bases;
    std::vector<Task> tasks;
};

// Enumerate the inputs of one task; fn(k, input, layer name). Must be deterministic.
void task_inputs(const Ctx& cx, const Task& t, const std::function<void(int64_t, const Input&, const char*)>& fn)
{
    int64_t k = 0;
    if (t.layer == 'A')
    {
        // all strings of length 1..L starting with byte t.b, for entry t.a (the empty string is task b == -1)
        Input in;
        in.entry = t.a;
        if (t.b < 0) { in.desc = "empty input"; fn(k++, in, "short"); return; }
        const int L = cx.thorough ? 3 : 2;
        in.bytes = Bytes(1, (char)t.b);
        in.desc = "all strings of length <= " + std::to_string(L);
        fn(k++, in, "short");
        for (int x = 0; x < 256; ++x)
        {
            in.bytes = Bytes(1, (char)t.b) + (char)x;
            fn(k++, in, "short");
            if (L >= 3)
                for (int y = 0; y < 256; ++y)
                {
                    in.bytes = Bytes(1, (char)t.b) + (char)x + (char)y;
                    fn(k++, in, "short");
                }
        }
        return;
    }
    if (t.layer == 'B')
    {
        // seed t.a, header index t.b, fed to entry t.c (0 = zlib_uncompress, or a framed decoder)
        const Seed& s = cx.seeds[t.a];
        int32_t h = headers_for(s.payload.size())[t.b];
        Input in;
        in.entry = t.c;
        auto emit = [&](const Bytes& body, const std::string& d) {
            in.bytes = ref::frame_raw(h, body);
            in.desc = "seed " + s.name + " header " + std::to_string(h) + " " + d;
            fn(k++, in, "frame");
        };
        emit(s.z, "intact stream");
        for (size_t cut : interesting_positions(s.z.size(), 4096)) emit(s.z.substr(0, cut), "stream truncated to " + std::to_string(cut) + " bytes");
        for (size_t pos : interesting_positions(s.z.size(), cx.thorough ? 64 : 24))
            for (int v = 0; v < 256; ++v)
            {
                if ((unsigned char)s.z[pos] == v) continue;
                Bytes m = s.z;
                m[pos] = (char)v;
                emit(m, "stream byte " + std::to_string(pos) + " replaced by " + std::to_string(v));
            }
        for (size_t extra : {(size_t)1, (size_t)4, (size_t)16384}) emit(s.z + Bytes(extra, '\x55'), std::to_string(extra) + " trailing bytes");
        emit(raw_deflate(s.payload), "raw deflate stream (no zlib header)");
        emit(dict_stream(s.payload), "stream that needs a preset dictionary");
        {
            Bytes st = ref::deflate_only(s.payload, 0);
            emit(st, "stored blocks");
            for (size_t cut : interesting_positions(st.size(), 64)) emit(st.substr(0, cut), "stored stream truncated to " + std::to_string(cut));
        }
        emit(s.z + s.z, "two concatenated streams");
        return;
    }
    if (t.layer == 'C')
    {
        const Base& b = cx.bases[t.a];
        Input in;
        in.entry = b.entry;
        auto emit = [&](const Bytes& payload, const std::string& d) {
            in.bytes = frame_for(b.entry, payload);
            in.desc = b.name + ": " + d;
            fn(k++, in, "payload");
        };
        if (t.b == 0)
        {
            for (size_t cut = 0; cut <= b.payload.size(); ++cut) emit(b.payload.substr(0, cut), "payload truncated to " + std::to_string(cut) + " bytes");
            for (size_t extra : {(size_t)1, (size_t)9, (size_t)300}) emit(b.payload + Bytes(extra, '\0'), std::to_string(extra) + " trailing zero bytes");
            emit(b.payload + Bytes(9, '\x01'), "9 trailing non-zero bytes");
        }
        else if (t.b == 1)
        {
            for (size_t pos = 0; pos < b.payload.size(); ++pos)
            {
                unsigned char o = (unsigned char)b.payload[pos];
                std::set<int> vals;
                if (cx.thorough)
                    for (int v = 0; v < 256; ++v) vals.insert(v);
                else
                {
                    vals = {0, 1, 0x7f, 0x80, 0xff, (o + 1) & 0xff, (o - 1) & 0xff};
                    for (int bit = 0; bit < 8; ++bit) vals.insert(o ^ (1 << bit));
                }
                vals.erase(o);
                for (int v : vals)
                {
                    Bytes m = b.payload;
                    m[pos] = (char)v;
                    emit(m, "payload byte " + std::to_string(pos) + " replaced by " + std::to_string(v));
                }
            }
        }
        else if (t.b == 2)
        {
            for (auto& f : b.layout)
            {
                if (f.kind != 'c') continue;
                for (uint64_t v : count_values(b.payload, f))
                    for (size_t extra : {(size_t)0, (size_t)1, (size_t)9, (size_t)12, (size_t)22, (size_t)23, (size_t)24, (size_t)29})
                    {
                        Bytes m = b.payload;
                        set_field(m, f, v);
                        emit(m + Bytes(extra, '\0'), f.name + " := " + std::to_string((long long)v) + " with " + std::to_string(extra) + " trailing bytes");
                    }
            }
        }
        else
        {
            // pairs of count fields: full product of the boundary values
            std::vector<const ref::FieldPos*> cf;
            for (auto& f : b.layout)
                if (f.kind == 'c' && f.size > 1) cf.push_back(&f);
            for (size_t i = 0; i < cf.size(); ++i)
                for (size_t j = i + 1; j < cf.size(); ++j)
                    for (uint64_t v : count_values(b.payload, *cf[i]))
                        for (uint64_t w : count_values(b.payload, *cf[j]))
                        {
                            Bytes m = b.payload;
                            set_field(m, *cf[i], v);
                            set_field(m, *cf[j], w);
                            emit(m, cf[i]->name + " := " + std::to_string((long long)v) + ", " + cf[j]->name + " := " + std::to_string((long long)w));
                        }
        }
        return;
    }
    if (t.layer == 'D')
    {
        // seed t.a through zlib_uncompress; every inflate call index x forced answer; pairs when the stream needs few calls
        const Seed& s = cx.seeds[t.a];
        Input in;
        in.entry = 0;
        in.bytes = ref::frame_raw((int32_t)s.payload.size(), s.z);
        long ncalls = 0;
        {
            seam::InflateArm arm(0);
            try { (void)eng::zlib_uncompress(to_v(in.bytes)); } catch (...) {}
            ncalls = seam::inflate_ctl.calls;
        }
        static const int rcs[] = {Z_BUF_ERROR, Z_MEM_ERROR, Z_NEED_DICT, Z_OK, Z_STREAM_END, Z_DATA_ERROR, Z_STREAM_ERROR, Z_VERSION_ERROR, Z_ERRNO};
        for (long i = 0; i <= ncalls; ++i)
            for (int rc : rcs)
            {
                in.fault_at = i; in.fault_rc = rc; in.fault_at2 = -1;
                in.desc = "seed " + s.name + ": inflate call " + std::to_string(i) + " of " + std::to_string(ncalls) + " answers " + std::to_string(rc);
                fn(k++, in, "environment");
            }
        if (ncalls <= 4)
            for (long i = 0; i <= ncalls; ++i)
                for (long j = i + 1; j <= ncalls + 1; ++j)
                    for (int rc : rcs)
                        for (int rc2 : rcs)
                        {
                            in.fault_at = i; in.fault_rc = rc; in.fault_at2 = j; in.fault_rc2 = rc2;
                            in.desc = "seed " + s.name + ": inflate calls " + std::to_string(i) + "," + std::to_string(j) + " answer " + std::to_string(rc) + "," + std::to_string(rc2);
                            fn(k++, in, "environment");
                        }
        return;
    }
}

Ctx make_ctx(bool thorough)
{
    Ctx cx;
    cx.thorough = thorough;
    cx.seeds = frame_seeds(thorough);
    cx.bases = payload_bases();
    for (int e = 0; e < NUM_ENTRIES; ++e)
    {
        cx.tasks.push_back({'A', e, -1, 0});
        for (int b0 = 0; b0 < 256; ++b0) cx.tasks.push_back({'A', e, b0, 0});
    }
    for (size_t s = 0; s < cx.seeds.size(); ++s)
        for (int h = 0; h < 8; ++h)
        {
            cx.tasks.push_back({'B', (int)s, h, 0});
            if (cx.seeds[s].payload.size() <= 129 || h == 3) cx.tasks.push_back({'B', (int)s, h, 5});  // also through v2.track_data::from_blob
        }
    for (size_t b = 0; b < cx.bases.size(); ++b)
        for (int sub = 0; sub < 4; ++sub) cx.tasks.push_back({'C', (int)b, sub, 0});
    for (size_t s = 0; s < cx.seeds.size(); ++s) cx.tasks.push_back({'D', (int)s, 0, 0});
    return cx;
}

int run(const Options& o)
{
    Evidence ev(o, "model_checking");
    Reporter rep(o.property, build_variant());
    Agg total;
    const double t0 = now_s();
    Ctx cx = make_ctx(!o.quick());
    if (!o.only.empty())
    {
        // "T<task>:<k>"
        size_t ti = (size_t)atoll(o.only.c_str() + 1);
        int64_t want = atoll(o.only.substr(o.only.find(':') + 1).c_str());
        if (ti >= cx.tasks.size()) { fprintf(stderr, "bad task\n"); return -1; }
        auto r = run_isolated(120, [&](Emitter& em) {
            Agg a;
            task_inputs(cx, cx.tasks[ti], [&](int64_t k, const Input& in, const char* layer) {
                if (k != want) return;
                printf("  input: entry=%s %s size=%zu hex=%s\n", entry_name(in.entry).c_str(), in.desc.c_str(), in.bytes.size(), hex(in.bytes.substr(0, 64)).c_str());
                fflush(stdout);
                evaluate(a, in, o.only, layer);
            });
            a.flush(em);
        });
        for (auto& l : r.lines) total.merge_line(l, rep);
        if (r.status != CaseResult::Ok)
            rep.add(Violation{"crash:" + r.crash_kind + "@" + r.crash_frame, "died: " + r.crash_kind + " in " + r.crash_frame, o.only, Json(r.crash_head)});
        for (auto& kv : rep.firsts()) printf("  %s: %s\n", kv.first.c_str(), kv.second.what.c_str());
        return rep.finish();
    }
    if (const char* e = getenv("VX_C05_LAYER"))
    {
        std::vector<Task> keep;
        for (auto& t : cx.tasks)
            if (strchr(e, t.layer)) keep.push_back(t);
        cx.tasks = keep;
    }
    const double deadline = t0 + (o.deadline_s > 0 ? o.deadline_s : (o.quick() ? 300 : 3000));
    bool dl = false;
    g_substep_timeout_s = 30;
    auto res = run_pool_sub(
        cx.tasks.size(), o.jobs, 3600,
        [&](size_t ti, int64_t from, Emitter& em, Sub& sub) {
            Agg a;
            a.live = &em;
            long n = 0;
            task_inputs(cx, cx.tasks[ti], [&](int64_t k, const Input& in, const char* layer) {
                if (k < from) return;
                sub.at(k);
                evaluate(a, in, "T" + std::to_string(ti) + ":" + std::to_string(k), layer);
                if (++n % 4096 == 0) a.flush(em);
            });
            a.flush(em);
        },
        nullptr, deadline, &dl, 4096);
    size_t done = 0;
    for (size_t i = 0; i < res.size(); ++i)
    {
        auto& r = res[i];
        for (auto& l : r.lines) total.merge_line(l, rep);
        const Task& t = cx.tasks[i];
        std::string where = t.layer == 'A' ? entry_name(t.a) + ":short" : t.layer == 'B' ? entry_name(t.c) + ":frame" : t.layer == 'C' ? entry_name(cx.bases[t.a].entry) + ":payload" : "zlib_uncompress:environment";
        for (auto& sc : r.subcrashes)
        {
            total.count("crashed_inputs");
            total.count(sc.timeout ? "outcome.timeout" : "outcome.crash");
            std::string desc;
            task_inputs(cx, t, [&](int64_t k, const Input& in, const char*) { if (k == sc.substep) desc = in.desc + " [" + std::to_string(in.bytes.size()) + " bytes: " + hex(in.bytes.substr(0, 48)) + "]"; });
            rep.add(Violation{where + ":" + sc.kind + "@" + sc.frame, where + " " + (sc.timeout ? "hangs" : "dies") + " (" + sc.kind + ") in " + sc.frame + " on: " + desc,
                              "T" + std::to_string(i) + ":" + std::to_string(sc.substep), Json(sc.head)});
        }
        if (r.status != CaseResult::Ok)
            rep.add(Violation{where + ":task:" + r.crash_kind, where + " task died (" + r.crash_kind + ") in " + r.crash_frame, "T" + std::to_string(i) + ":-1", Json(r.crash_head)});
        else if (r.crash_kind != "not-run") ++done;
    }
    rep.set_counts(total.vcount);
    const bool exhaustive = !dl && done == cx.tasks.size();
    auto& c = ev.cov();
    c["evaluations"] = total.get("evaluations") + total.get("crashed_inputs");
    c["distinct_nontrivial"] = total.get("layer.frame") + total.get("layer.payload") + total.get("layer.environment");
    c["states"] = total.get("evaluations") + total.get("crashed_inputs");
    c["transitions"] = total.get("evaluations") + total.get("crashed_inputs");
    c["traces_validated_against_impl"] = total.get("evaluations");
    c["rule"] =
        std::string("12 entry points (zlib_uncompress + 11 decoders). short: the empty string and ALL byte strings of length 1..") + (o.quick() ? "2" : "3") +
        " to every entry point. frame: for each seed payload (sizes 0,1,27,44,129,16383,16384,16385,32768" + (o.quick() ? "" : ",65536,100000") +
        "; zeros / text / incompressible) x length header in {0,1,n-1,n,n+1,2^31-1,-1,-2^31} x {intact stream; every proper prefix (all when <= 4096 bytes, else first/last 16 and +-6 around every 16384 multiple); "
        "every other value of each stream byte (first " + (o.quick() ? "24" : "64") + " bytes or all positions when shorter, else the edge positions); 1/4/16384 trailing bytes; raw deflate; preset-dictionary stream; stored blocks and their truncations; "
        "two concatenated streams}. payload (correctly framed so the inner parser is reached): for 2 base payloads of each decoder every truncation, every single-byte replacement (" +
        (o.quick() ? "0,1,0x7f,0x80,0xff,orig+-1 and every single-bit flip" : "all 255 other values") +
        "), every embedded count/length field x {-2^63,-1,0,1,fit-1,fit,fit+1,fit+2,2^31-1,2^31,2^32,2^61,2^63-1, three values whose product with the entry size wraps} (all 256 values for 1-byte label lengths) x "
        "{0,1,9,12,22,23,24,29} trailing bytes, and the full product over every pair of 8-byte count fields. environment: for each seed every inflate() call index x forced answer in "
        "{Z_BUF_ERROR,Z_MEM_ERROR,Z_NEED_DICT,Z_OK,Z_STREAM_END,Z_DATA_ERROR,Z_STREAM_ERROR,Z_VERSION_ERROR,Z_ERRNO} without progress, and all pairs when the stream needs <= 4 calls. "
        "Non-trivial = inputs that get past the 4-byte frame guard (frame, payload and environment layers); each is distinct by construction.";
    c["exhaustive"] = exhaustive;
    Json b = Json::object();
    b["tasks_total"] = (long long)cx.tasks.size();
    b["tasks_completed"] = (long long)done;
    b["deadline_hit"] = dl;
    b["short_string_max_length"] = o.quick() ? 2 : 3;
    b["frame_seeds"] = (long long)cx.seeds.size();
    b["payload_bases"] = (long long)cx.bases.size();
    c["bounds"] = b;
    c["counters"] = total.counters_json();
    c["distinct_outcomes"] = total.counters_json("outcome.");
    c["decoder_accepted_distinct_inputs"] = total.ndistinct("accepted");
    for (size_t ti : {(size_t)1, cx.tasks.size() / 2, cx.tasks.size() - 1})
    {
        Json s = Json::object();
        task_inputs(cx, cx.tasks[ti], [&](int64_t k, const Input& in, const char* layer) {
            if (k != 3) return;
            s["case"] = "T" + std::to_string(ti) + ":3";
            s["layer"] = layer;
            s["entry"] = entry_name(in.entry);
            s["what"] = in.desc;
            s["input_hex"] = hex(in.bytes.substr(0, 64));
        });
        ev.sample(s);
    }
    ev.assumption("oracle: the call returns or throws something derived from std::exception; ASan/UBSan/libstdc++-assertion reports, signals, the inflate-call horizon (64 + ~size/14 calls) and a 30 s per-input watchdog are violations");
    ev.assumption("allocation failure is modelled as std::bad_alloc (harness operator new over ASan's malloc, 256 MiB cap under ASan), as with the real allocator");
    ev.assumption("the property's 'coverage-guided random mutation' clause is sampling and is deliberately not used");
    for (auto& h : total.harness_errors) fprintf(stderr, "harness error: %s\n", h.c_str());
    int bad = rep.finish();
    if (!total.harness_errors.empty()) bad = -1;
    ev.write(bad < 0 ? 0 : bad, rep.known_hits());
    printf("C05 %s: inputs=%lld crashed=%lld tasks=%zu/%zu exhaustive=%d wall=%.1fs\n", o.tier.c_str(), total.get("evaluations"), total.get("crashed_inputs"), done, cx.tasks.size(),
           (int)exhaustive, now_s() - t0);
    return bad;
}
Registrar reg({"C05", "san", "san", run});
}  // namespace
