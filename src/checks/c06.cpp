// C06 — getters return what setters stored, getter == snapshot field, and a setter touches only its own field.
// Shape (S): BFS over the single-field setter alphabet (model/trackfields.cpp) on two tracks.
#include <algorithm>
#include <set>

#include "model/explore.hpp"
#include "model/trackfields.hpp"

namespace
{
using namespace vx;
using namespace wm;

using Facts = std::map<std::string, std::string>;
Facts observe_all(World& w)
{
    Facts all;
    for (size_t k = 0; k < w.tracks.size(); ++k)
    {
        auto f = facts_of(observe_track(w.tracks[k]), "track#" + std::to_string(w.tracks[k].id()) + ".");
        for (auto& kv : f) all["t" + std::to_string(k) + "." + kv.first] = kv.second;
    }
    // A track without performance data has no cue / loop slots at all: its lists are empty and every slot accessor refuses its index.
    // For the comparisons of this check that is the same observation as eight empty slots (the padding every written track gets):
    // "no cue in slot k" either way. (An accessor that refuses an index of a list that HAS that slot still shows, through the list.)
    for (auto& kv : all)
    {
        const std::string& key = kv.first;
        auto ends = [&](const char* suf) { size_t n = strlen(suf); return key.size() >= n && key.compare(key.size() - n, n, suf) == 0; };
        if ((key.find(".hot_cue_at(") != std::string::npos || key.find(".loop_at(") != std::string::npos) && kv.second.rfind("!throws std::out_of_range", 0) == 0)
        {
            std::string list = key.substr(0, key.rfind('.') + 1) + (key.find(".hot_cue_at(") != std::string::npos ? "hot_cues" : "loops");
            auto it = all.find(list);
            if (it != all.end() && (it->second.empty() || it->second == "--------")) kv.second = "-";
        }
    }
    for (auto& kv : all)
    {
        const std::string& key = kv.first;
        auto ends = [&](const char* suf) { size_t n = strlen(suf); return key.size() >= n && key.compare(key.size() - n, n, suf) == 0; };
        if ((ends(".hot_cues") || ends(".loops")) && kv.second.empty()) kv.second = "--------";
    }
    return all;
}

void op_tt_foreign(World& w, const Op& op)
{
    auto tt = w.lib2->track();
    int64_t id = w.tracks.at((size_t)op.i.at(0)).id();
    auto qc = tt.get_quick_cues(id);
    qc.default_main_cue = 1111.0;
    qc.adjusted_main_cue = 2222.0;
    qc.is_main_cue_adjusted = true;
    tt.set_quick_cues(id, qc);
    auto bd = tt.get_beat_data(id);
    bd.default_beat_grid = bd.adjusted_beat_grid;
    for (auto& mk : bd.default_beat_grid) mk.sample_offset += 333.0;
    tt.set_beat_data(id, bd);
    auto td = tt.get_track_data(id);
    td.average_loudness_mid = td.average_loudness_low * 0.5;
    td.average_loudness_high = td.average_loudness_low * 0.25;
    tt.set_track_data(id, td);
}
void op_drop_perf(World& w, const Op& op) { w.exec("DELETE FROM perfdata.PerformanceData WHERE id = " + std::to_string(w.tracks.at((size_t)op.i.at(0)).id())); }
struct RegisterForeign
{
    RegisterForeign() { World::register_op("tt_foreign", op_tt_foreign); World::register_op("drop_perf", op_drop_perf); }
} register_foreign;

struct Dom
{
    struct Model
    {
        Facts facts;
        std::string dump_hash;
        int ntracks = 0;
    };
    static void init(Model&, World&) {}
    static void visit(World&, Model&, const std::string&, Agg&) {}
    static std::string key_extra(const Model&) { return ""; }
    static std::vector<std::string> seeds(eng::engine_schema sch)
    {
        // third seed, 2.x: a track whose performance data was written by someone else (through the public table API, as Engine itself
        // would leave it): the redundant copies inside the blobs differ from each other (default vs adjusted main cue, default vs
        // adjusted beat grid, three loudness bands). Getter and snapshot must still read the same copy, and no setter may disturb it.
        if (is_v2(sch)) return {"create_track(0);create_track(2)", "create_track(3);create_track(0)", "@1:create_track(2);create_track(3);tt_foreign(0)"};
        // third seed, 1.x: a track without a PerformanceData row (an un-analysed track, which the library documents as legitimate; the
        // public write path always creates the row, so the row is deleted by raw SQL): the first setter that needs the row must create it
        return {"create_track(0);create_track(2)", "create_track(3);create_track(0)", "@1:create_track(2);create_track(0);drop_perf(1)"};
    }
    // group restriction for the deep tier: VX_C06_GROUP selects the fields that share a row or blob
    static const std::set<std::string>& group()
    {
        static std::set<std::string> g = [] {
            std::set<std::string> s;
            if (const char* e = getenv("VX_C06_GROUP"))
                for (auto& n : split(e, ',')) s.insert(n);
            return s;
        }();
        return g;
    }
    static std::vector<Op> alphabet(const Model& m, const World&, int)
    {
        std::vector<Op> ops;
        for (int t = 0; t < m.ntracks; ++t)
        {
            for (auto& f : fields())
            {
                if (!f.has_setter || (!group().empty() && !group().count(f.name))) continue;
                for (size_t v = 0; v < f.values.size(); ++v) ops.push_back(Op{"set", {t, (long long)v}, {f.name}});
            }
            for (const char* which : {"hot_cue_at", "loop_at"})
            {
                if (!group().empty() && !group().count(which)) continue;
                size_t nv = std::string(which) == "hot_cue_at" ? hot_cue_slot_values().size() : loop_slot_values().size();
                for (int idx = 0; idx < 8; ++idx)
                    for (size_t v = 0; v < nv; ++v) ops.push_back(Op{"set_slot", {t, (long long)v, idx}, {which}});
            }
        }
        return ops;
    }
    static bool step(World& w, Model& m, const Op& op, const Outcome& r, Agg& a, const std::string& cid, bool checking)
    {
        const std::string fam = w.v2 ? "v2" : "v1";
        bool healthy = true;
        if (op.f == "create_track") { m.ntracks = (int)w.tracks.size(); }
        if (op.f != "set" && op.f != "set_slot")
        {
            m.facts = observe_all(w);
            m.dump_hash = hash128(w.dump());
            return true;
        }
        const bool slot = op.f == "set_slot";
        const int t = (int)op.i[0];
        const std::string tp = "t" + std::to_string(t) + ".";
        // identify the field group and the expectations
        std::vector<std::string> own_facts;
        std::vector<std::string> allowed;
        std::vector<std::pair<std::string, std::string>> exact;
        bool must = true;
        std::string label;
        if (!slot)
        {
            auto* f = field_by_name(op.s[0]);
            auto& v = f->values.at((size_t)op.i[1]);
            own_facts = f->facts;
            allowed = w.v2 ? v.allowed_v2 : v.allowed_v1;
            exact = v.extra_expect;
            must = v.must_succeed;
            label = "set_" + f->name;
            // two tracks cannot share a path: a value that is already another track's path may be refused
            if (f->name == "relative_path" && !v.allowed_v1.empty())
                for (auto& kv : m.facts)
                    if (kv.first.rfind(tp, 0) != 0 && kv.first.find(".relative_path") != std::string::npos && kv.first.find("snapshot") == std::string::npos && kv.second == v.allowed_v1[0]) must = false;
        }
        else
        {
            bool loop = op.s[0] == "loop_at";
            int idx = (int)op.i[2];
            auto& sv = (loop ? loop_slot_values() : hot_cue_slot_values()).at((size_t)op.i[1]);
            std::string one = std::string(loop ? "loop_at(" : "hot_cue_at(") + std::to_string(idx) + ")";
            own_facts = {one, loop ? "loops" : "hot_cues"};
            exact = {{one, slot_text(sv, loop)}};
            label = std::string("set_") + op.s[0];
        }
        auto viol = [&](const std::string& inv, const std::string& what) {
            healthy = false;
            if (checking) a.violation(fam + "|" + label + "|" + inv, "[" + schema_name(w.schema) + "] after " + op.str() + ": " + what, cid);
        };
        Facts after = observe_all(w);
        std::string now_hash = hash128(w.dump());
        if (checking) a.count("op." + label + (r.ok ? ".ok" : ".rejected"));
        if (!r.ok)
        {
            if (!r.std_ex) viol("non_std_exception", "threw " + r.ex_type);
            if (must) viol("rejected_valid_value", "setter refused an ordinary value: " + r.ex_type + ": " + r.what);
            if (after != m.facts)
            {
                std::string diff;
                for (auto& kv : after)
                    if (m.facts[kv.first] != kv.second && diff.size() < 300) diff += " " + kv.first;
                viol("rejected_but_changed", "setter threw but observable state changed:" + diff);
            }
            else if (now_hash != m.dump_hash) viol("rejected_but_database_changed", "setter threw but the database content changed");
        }
        else
        {
            // (a) the getter returns the value set (under the normalisation table)
            if (!allowed.empty())
            {
                const std::string& got = after[tp + own_facts[0]];
                if (std::find(allowed.begin(), allowed.end(), got) == allowed.end())
                    viol("getter_value", own_facts[0] + "() = " + trunc(got, 120) + ", expected " + trunc(join(allowed, " or "), 200));
            }
            for (auto& e : exact)
                if (after[tp + e.first] != e.second) viol("getter_value", e.first + " = " + trunc(after[tp + e.first], 120) + ", expected " + trunc(e.second, 120));
            // slot setter: the list getter shows the new slot and the other seven slots unchanged
            if (slot)
            {
                bool loop = op.s[0] == "loop_at";
                for (int k = 0; k < 8; ++k)
                {
                    if (k == (int)op.i[2]) continue;
                    std::string fk = std::string(loop ? "loop_at(" : "hot_cue_at(") + std::to_string(k) + ")";
                    if (after[tp + fk] != m.facts[tp + fk]) viol("other_slot_changed", fk + " changed from " + trunc(m.facts[tp + fk], 80) + " to " + trunc(after[tp + fk], 80));
                }
            }
            // (d) frame condition: nothing outside the field's own facts changes, on either track
            std::set<std::string> own;
            for (auto& f : own_facts) { own.insert(tp + f); own.insert(tp + "snapshot." + f); }
            for (auto& kv : after)
            {
                if (own.count(kv.first)) continue;
                auto it = m.facts.find(kv.first);
                if (it == m.facts.end() || it->second != kv.second)
                {
                    bool other_track = kv.first.rfind(tp, 0) != 0;
                    std::string fname = kv.first.substr(kv.first.find('.') + 1);
                    viol(other_track ? "other_track_changed" : "other_field_changed:" + fname, kv.first + " changed from " + trunc(it == m.facts.end() ? "(absent)" : it->second, 80) + " to " + trunc(kv.second, 80));
                }
            }
        }
        // (c) every getter agrees with the corresponding snapshot field (list getters vs per-slot getters included)
        for (auto& kv : after)
        {
            auto dot = kv.first.find(".snapshot.");
            if (dot == std::string::npos) continue;
            std::string getter = kv.first.substr(0, dot + 1) + kv.first.substr(dot + 10);
            auto it = after.find(getter);
            if (it != after.end() && it->second != kv.second) viol("getter_differs_from_snapshot:" + kv.first.substr(dot + 10), getter + "() = " + trunc(it->second, 100) + " but snapshot has " + trunc(kv.second, 100));
        }
        for (int k = 0; k < (int)w.tracks.size(); ++k)
        {
            std::string p = "t" + std::to_string(k) + ".";
            if (after.count(p + "snapshot")) viol("snapshot_throws", "snapshot() of track " + std::to_string(k) + " throws: " + after[p + "snapshot"]);
            for (const char* lst : {"hot_cue", "loop"})
            {
                std::string joined;
                for (int s = 0; s < 8; ++s) joined += after[p + lst + "_at(" + std::to_string(s) + ")"];
                if (after.count(p + lst + "s") && joined != after[p + lst + "s"]) viol(std::string("list_differs_from_slots:") + lst, p + lst + "s() = " + trunc(after[p + lst + "s"], 100) + " but the slot getters give " + trunc(joined, 100));
            }
        }
        m.facts = after;
        m.dump_hash = now_hash;
        if (checking)
        {
            a.count("states_checked");
            if (healthy) a.count("validated");
            if (r.ok && now_hash != m.dump_hash) {}
            a.seen("nontrivial", now_hash);
        }
        return healthy;
    }
};

int run(const Options& o)
{
    Evidence ev(o, "model_checking");
    Reporter rep(o.property, build_variant());
    Agg total;
    const double t0 = now_s();
    if (!o.only.empty())
    {
        ex::replay<Dom>(o.only, rep, total);
        for (auto& kv : rep.firsts()) printf("  %s: %s\n", kv.first.c_str(), kv.second.what.c_str());
        return rep.finish();
    }
    ex::Cfg cfg;
    cfg.schemas = all_schemas();
    if (const char* e = getenv("VX_SCHEMAS"))
    {
        cfg.schemas.clear();
        for (auto& n : split(e, ','))
            if (auto s = schema_by_name(n)) cfg.schemas.push_back(*s);
    }
    cfg.depth = o.quick() ? 1 : 2;
    if (o.quick())
        for (auto n : {"1.18.0-os", "2.21.2"}) cfg.depth_override[n] = 2;
    if (const char* e = getenv("VX_DEPTH")) { cfg.depth = atoi(e); cfg.depth_override.clear(); }
    cfg.items_per_task = 1;
    cfg.deadline_abs = t0 + (o.deadline_s > 0 ? o.deadline_s : (o.quick() ? 280 : 3000));
    auto st = ex::explore<Dom>(o, cfg, rep, total);
    rep.set_counts(total.vcount);
    bool exhaustive = !st.deadline_hit;
    for (auto& kv : st.depth_by_schema)
    {
        auto it = cfg.depth_override.find(kv.first);
        if (kv.second < (it == cfg.depth_override.end() ? cfg.depth : it->second)) exhaustive = false;
    }
    size_t nops = 0;
    for (auto& f : fields()) nops += f.values.size();
    nops += 8 * (hot_cue_slot_values().size() + loop_slot_values().size());
    auto& c = ev.cov();
    c["states"] = st.states;
    c["transitions"] = st.transitions;
    c["traces_validated_against_impl"] = total.get("validated");
    c["evaluations"] = st.transitions;
    c["distinct_nontrivial"] = total.ndistinct("nontrivial");
    c["rule"] =
        "Explicit-state BFS on the real library. Two tracks (seed A: minimal + fully analysed; seed B: all eight cue and loop slots used + minimal; on 2.x a third seed, entering one level late, whose first track carries foreign performance data written through the table API: default and adjusted main cue, default and adjusted beat grid and the three loudness bands all differ; on 1.x a third seed whose second track has no PerformanceData row). Alphabet in every state, for each track: "
        "every setter of the 25 fields with its value alphabet (absent, the 0 / empty sentinel, ordinary, edge: " + std::to_string(nops) + " setter calls per track in all) and set_hot_cue_at / set_loop_at at every "
        "index 0..7 with {absent, entry, entry with 255-byte label}. After every transition every getter and snapshot() of BOTH tracks is read: the set field's getter must return one of the "
        "texts the normalisation table allows, each getter must equal the corresponding snapshot field, list getters must equal the slot getters, and no fact outside the set field's own "
        "getters may change on either track (file name and extension belong to relative_path). A setter that throws must leave every fact and the database unchanged. "
        "Non-trivial = distinct resulting database states.";
    c["exhaustive"] = exhaustive;
    Json b = Json::object();
    b["depth"] = cfg.depth;
    Json dbs = Json::object();
    for (auto& kv : st.depth_by_schema) dbs[kv.first] = kv.second;
    b["depth_completed_by_schema"] = dbs;
    b["deadline_hit"] = st.deadline_hit;
    b["states_not_expanded_because_violating"] = st.unhealthy;
    c["bounds"] = b;
    c["counters"] = total.counters_json();
    for (auto& h : st.sample_histories) ev.sample(Json(h));
    if (st.sample_histories.empty()) ev.sample(Json("2.18.0|create_track(0);create_track(2);set(0,2|title)"));
    ev.assumption("normalisation table in src/model/trackfields.cpp: '' may read back as absent, 0 is the 'no value' sentinel for loudness / main cue / sample count / sample rate, durations and timestamps have whole-second resolution, ratings are clamped to 0..100, schema 1.x stores whole bpm");
    ev.assumption("waveform read-back: 1.x as given; 2.x predicted only for the empty waveform and for 1024 entries of full opacity (as given, or empty when the track has no usable count / rate); other 2.x waveforms are resampled data held to the frame condition only");
    for (auto& h : total.harness_errors) fprintf(stderr, "harness error: %s\n", h.c_str());
    int bad = rep.finish();
    if (!total.harness_errors.empty()) bad = -1;
    ev.write(bad < 0 ? 0 : bad, rep.known_hits());
    printf("C06 %s: states=%lld transitions=%lld validated=%lld unhealthy_states=%lld exhaustive=%d wall=%.1fs\n", o.tier.c_str(), st.states, st.transitions, total.get("validated"), st.unhealthy,
           (int)exhaustive, now_s() - t0);
    return bad;
}
Registrar reg({"C06", "opt", "opt", run});
}  // namespace
