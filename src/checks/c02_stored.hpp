#pragma once
#include "common/agg.hpp"
#include "model/world.hpp"
namespace c02s
{
void run_stored(wm::World& w, vx::Agg& a);
}
