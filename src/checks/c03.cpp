// C03 — every blob codec decodes its own encoding to the original value (or refuses to encode it).
// Shape (I): base value + at most k field deviations (k = 1 quick, 2 thorough) for each of the eleven codecs.
#include "codec_run.hpp"

namespace
{
using namespace vx;
using namespace cod;

template <class T>
void check_value(Agg& a, const typename T::Lib& orig, const std::string& cid)
{
    const std::string nm = T::name;
    a.count("evaluations");
    const bool must = T::must_accept(orig);
    auto expect = T::to_ref(T::norm(orig));
    std::string exp_bytes = ref::encode(expect);
    a.seen("values", nm + exp_bytes + (must ? "1" : "0") + ref::encode(T::to_ref(orig)));
    ByteVec blob;
    try
    {
        blob = T::enc(orig);
    }
    catch (const std::exception& e)
    {
        if (must)
            a.violation(nm + ".rejected_encodable", nm + " encoder refused a value inside the encodable domain: " + e.what(), cid);
        else
            a.count("outcome.rejected_unencodable");
        return;
    }
    catch (...)
    {
        a.violation(nm + ".non_std_exception", nm + " encoder threw something not derived from std::exception", cid);
        return;
    }
    a.count("transitions");
    typename T::Lib back;
    try
    {
        back = guarded_dec<T>(blob);
    }
    catch (const std::exception& e)
    {
        a.violation(nm + ".own_encoding_undecodable", nm + " wrote a blob its own decoder rejects: " + std::string(e.what()) + (must ? "" : " [value outside the encodable domain should have been refused]"), cid);
        return;
    }
    catch (const seam::HorizonExceeded& h)
    {
        a.violation(nm + ".decoder_does_not_terminate", nm + " decoding its own encoding does not terminate: inflate() called " + std::to_string(h.calls) + " times", cid);
        return;
    }
    catch (...)
    {
        a.violation(nm + ".non_std_exception", nm + " decoder threw something not derived from std::exception", cid);
        return;
    }
    a.count("transitions");
    auto got = T::to_ref(back);
    if constexpr (std::is_same_v<T, V1Track>)
    {
        // 0 doubles as "no key" and as c_major in the 1.x track-data layout (to_ref cannot tell them apart, the optional can)
        if (ref::same(expect, got) && orig.key.has_value() != back.key.has_value())
        {
            a.violation(nm + ".key_c_major_reads_absent", nm + " key c_major (0) is written as the 'no key' sentinel and reads back absent", cid);
            return;
        }
    }
    if (!ref::same(expect, got))
    {
        std::string key = nm + (must ? ".roundtrip_mismatch" : ".unencodable_value_written_lossy");
        Json d = Json::object();
        d["expected_payload"] = hex(exp_bytes.substr(0, 160));
        d["observed_payload"] = hex(ref::encode(got).substr(0, 160));
        a.violation(key, nm + " decode(encode(v)) differs from v", cid, d);
        return;
    }
    a.count(must ? "outcome.roundtrip_ok" : "outcome.roundtrip_ok_outside_domain");
    if (must) a.count("validated");
}

int run(const Options& o)
{
    Evidence ev(o, "model_checking");
    Reporter rep(o.property, build_variant());
    Agg total;
    auto per_value = [](auto tag, Agg& a, const auto& v, const std::string& cid) { check_value<typename decltype(tag)::type>(a, v, cid); };
    if (!o.only.empty())
    {
        if (!run_single_value(o.only, rep, total, per_value)) { fprintf(stderr, "bad case id\n"); return -1; }
        for (auto& kv : rep.firsts()) printf("  %s: %s %s\n", kv.first.c_str(), kv.second.what.c_str(), kv.second.detail.dump(0).c_str());
        return rep.finish();
    }
    const double t0 = now_s();
    // phases: quick = <=2 deviations with the small size alphabets; thorough = <=2 deviations with the wide size alphabets
    // (grids up to 40000 markers, waveforms up to 100000 points) and then <=3 deviations with the small ones.
    std::vector<std::pair<int, bool>> phases = o.quick() ? std::vector<std::pair<int, bool>>{{2, false}} : std::vector<std::pair<int, bool>>{{2, true}, {3, false}};
    if (const char* e = getenv("VX_C03_K")) phases = {{atoi(e), false}};
    CodecRun cfg;
    size_t tasks = 0, tasks_done = 0;
    bool deadline_hit = false;
    Json completed = Json::array();
    for (auto& ph : phases)
    {
        cfg = CodecRun();
        cfg.k = ph.first;
        cfg.wide = ph.second;
        cfg.stripes = cfg.k >= 3 ? 32 : 8;
        cfg.timeout_s = 1800;
        cfg.deadline_abs = t0 + (o.deadline_s > 0 ? o.deadline_s : (o.quick() ? 240 : 2400));
        run_codec_values(o, cfg, rep, total, per_value);
        tasks += cfg.tasks;
        tasks_done += cfg.tasks_done;
        deadline_hit = deadline_hit || cfg.deadline_hit;
        Json p = Json::object();
        p["max_field_deviations"] = cfg.k;
        p["wide_size_alphabets"] = cfg.wide;
        p["tasks"] = (long long)cfg.tasks;
        p["tasks_completed"] = (long long)cfg.tasks_done;
        completed.push(p);
    }
    cfg.tasks = tasks;
    cfg.tasks_done = tasks_done;
    cfg.deadline_hit = deadline_hit;
    rep.set_counts(total.vcount);
    const bool exhaustive = !cfg.deadline_hit && cfg.tasks_done == cfg.tasks;
    auto& c = ev.cov();
    c["evaluations"] = total.get("evaluations");
    c["distinct_nontrivial"] = total.ndistinct("values");
    c["states"] = total.ndistinct("values");
    c["transitions"] = total.get("transitions");
    c["traces_validated_against_impl"] = total.get("validated");
    c["rule"] =
        "For each of the 11 codecs a base value and every value that differs from it in at most k fields (quick: k=2 with the small size alphabets; thorough: k=2 with the wide size alphabets, then k=3 with the small ones); field alphabets: doubles by bit-pattern class "
        "(+-0, denormals, +-1, -1 sentinel, 1e15, DBL_MAX, +-inf, quiet and payload NaN), int64/int32 edges, every byte class for colours/flags, labels of length "
        "{0,1,2,127,128,254,255,256,257,300} x {ASCII, NUL, 0xFF, multi-byte UTF-8}, 0..12 cue/loop entries (deviations on first, second and last), grids of "
        "{0,1,2,3,8,682,683,32768,32769,40000} markers, waveforms of {0,1,2,4,1023..1025,5461,5462,100000} points, extra_data of {0,1,3,9,300} bytes. "
        "Distinct = distinct (codec, expected payload) pairs; validated = values inside the encodable domain whose decode(encode(v)) equalled v bit for bit.";
    c["exhaustive"] = exhaustive;
    Json b = Json::object();
    b["phases"] = completed;
    b["tasks_total"] = (long long)cfg.tasks;
    b["tasks_completed"] = (long long)cfg.tasks_done;
    b["deadline_hit"] = cfg.deadline_hit;
    c["bounds"] = b;
    c["counters"] = total.counters_json();
    c["distinct_outcomes"] = total.counters_json("outcome.");
    for (int i = 0; i < NUM_CODECS; ++i)
        with_codec(i, [&](auto tag) {
            using T = typename decltype(tag)::type;
            Chooser ch;
            std::vector<int> zero(field_sizes<T>(cfg.wide).size(), 0);
            ch.choice = &zero;
            auto v = T::make(ch);
            Json s = Json::object();
            s["codec"] = T::name;
            s["case"] = make_case_id(T::name, zero, cfg.wide);
            s["base_payload_hex"] = hex(ref::encode(T::to_ref(v)).substr(0, 96));
            s["fields"] = (long long)zero.size();
            ev.sample(s);
        });
    ev.assumption("schema 1.x structs use 0 as 'no value' for sample rate, sample count and loudness; optional(0) reading back absent is treated as the layout's documented sentinel, like offset -1 for cues/loops");
    ev.assumption("the 1.x overview waveform layout has no opacity bytes; opacity is not part of its encodable value");
    ev.assumption("a value outside the encodable domain (label > 255 bytes, unsorted or single-marker 1.x grid, empty 1.x label) may be refused; if it is accepted it must still round-trip");
    for (auto& h : total.harness_errors) fprintf(stderr, "harness error: %s\n", h.c_str());
    int bad = rep.finish();
    if (!total.harness_errors.empty()) bad = -1;
    ev.write(bad < 0 ? 0 : bad, rep.known_hits());
    printf("C03 %s: values=%lld distinct=%lld validated=%lld tasks=%zu/%zu exhaustive=%d wall=%.1fs\n", o.tier.c_str(), total.get("evaluations"), total.ndistinct("values"),
           total.get("validated"), cfg.tasks_done, cfg.tasks, (int)exhaustive, now_s() - t0);
    return bad;
}
Registrar reg({"C03", "san", "opt", run});
}  // namespace
