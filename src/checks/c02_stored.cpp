// C02, stored-blob half: snapshots are written through the public API (create_track; update over another snapshot; the
// single-field setters over another snapshot, in two orders) on every schema; the raw BLOB
// columns of Track / PerformanceData are read by raw SQL on the captured connection and decoded with refcodec; the
// decoded content must be the Engine layout the snapshot prescribes (predicted here, independently of the library's
// convert_* helpers): slots, labels, offsets, the order of the colour channels, main cue, grid markers, rate / count / loudness.
#include <algorithm>
#include <array>
#include <functional>
#include <optional>
#include "c02_stored.hpp"

#include "model/trackfields.hpp"
#include "refcodec/refcodec.hpp"

namespace c02s
{
using namespace vx;
using namespace wm;
using ref::Bytes;
namespace
{
Bytes unx(const std::string& cell) { return cell.size() >= 3 && cell[0] == 'x' ? unhex(cell.substr(2, cell.size() - 3)) : Bytes(); }
std::string d(double v)
{
    char b[40];
    snprintf(b, sizeof b, "%.17g", v);
    return b;
}
dj::track_snapshot variant(int v, bool v2, int n)
{
    auto s = example_snapshot(v % 2 ? 3 : 2, n);
    // distinct colour channels and non-trivial labels in the edge slots
    if (v >= 2)
    {
        s.hot_cues.assign(8, std::nullopt);
        s.loops.assign(8, std::nullopt);
        s.hot_cues[0] = dj::hot_cue{"first \xe2\x99\xab", 0.0, dj::pad_color{0x11, 0x22, 0x33, 0x44}};
        s.hot_cues[7] = dj::hot_cue{std::string(255, 'z'), 123456.789, dj::pad_color{0xfe, 0xdc, 0xba, 0x98}};
        s.loops[0] = dj::loop{"L0", 0.5, 1.5, dj::pad_color{0x01, 0x02, 0x03, 0x04}};
        s.loops[7] = dj::loop{std::string(255, 'y'), 1000.25, 99999.75, dj::pad_color{0xaa, 0xbb, 0xcc, 0xdd}};
        s.main_cue = 777.125;
        s.beatgrid = {{-4, 10.5}, {0, 88210.5}, {12, 352810.5}};
        s.average_loudness = 0.3125;
        s.sample_rate = 48000;
        s.sample_count = 480000;
        s.key = dj::musical_key::f_major;
    }
    // a waveform of the size the library recommends for this generation (1024 overview points on 2.x, the high-resolution
    // extent on 1.x), with a non-monotone pattern and, on 1.x, opacities that differ from the values
    if (s.sample_count && s.sample_rate)
    {
        auto ext = v2 ? eng::calculate_overview_waveform_extents(*s.sample_count, *s.sample_rate) : eng::calculate_high_resolution_waveform_extents(*s.sample_count, *s.sample_rate);
        s.waveform.clear();
        for (unsigned long long i = 0; i < ext.size; ++i)
        {
            uint8_t a = (uint8_t)((i * 37 + v) % 251), b = (uint8_t)((i * 91 + 3) % 241), c = (uint8_t)((i * 13 + 7) % 239);
            if (v2) s.waveform.push_back({{a}, {b}, {c}});
            else s.waveform.push_back({{a, (uint8_t)(255 - a)}, {b, (uint8_t)(b / 2)}, {c, (uint8_t)(c ^ 0x55)}});
        }
    }
    if (v == 4) { s.hot_cues.assign(3, std::nullopt); s.hot_cues[2] = dj::hot_cue{"short list", 5.0, dj::pad_color{9, 8, 7, 6}}; s.loops.clear(); s.main_cue.reset(); }
    return s;
}
}  // namespace

// how the snapshot reaches the database: 0 create_track(s); 1 create_track(other) then update(s); 2 / 3 create_track(other)
// then the single-field setters of every blob-backed field, in forward / reverse order
const char* path_name(int p) { return p == 0 ? "create_track" : p == 1 ? "update" : p == 2 ? "setters" : "setters (reverse order)"; }
void write_by_path(World& w, int path, const dj::track_snapshot& s, int other_variant, std::optional<dj::track>& out)
{
    if (path == 0) { out = w.db.create_track(s); return; }
    auto o = variant(other_variant, w.v2, 300 + other_variant);
    o.relative_path = *s.relative_path + ".other";
    out = w.db.create_track(o);
    auto& t = *out;
    if (path == 1) { t.update(s); return; }
    std::vector<std::function<void()>> setters = {
        [&] { t.set_sample_rate(s.sample_rate); },   [&] { t.set_sample_count(s.sample_count); }, [&] { t.set_average_loudness(s.average_loudness); },
        [&] { t.set_key(s.key); },                   [&] { t.set_beatgrid(s.beatgrid); },         [&] { t.set_main_cue(s.main_cue); },
        [&] { t.set_hot_cues(s.hot_cues); },         [&] { t.set_loops(s.loops); }};
    if (path == 3) std::reverse(setters.begin(), setters.end());
    for (auto& f : setters) f();
    // the waveform last in both orders: its stored samples-per-point belongs to the count and rate in force when it is written
    // (2.x does not re-derive it when the count changes later, 1.x does; neither is prescribed by the statement)
    t.set_waveform(s.waveform);
}

void run_stored(World& w, Agg& a)
{
    const std::string sn = schema_name(w.schema);
    const std::string fam = w.v2 ? "v2" : "v1";
    for (int path = 0; path < 4; ++path)
    for (int v = 0; v < 5; ++v)
    {
        a.count("evaluations");
        a.count("stored_evaluations");
        const std::string cid = "stored:" + sn + ":" + std::to_string(v) + (path ? ":" + std::to_string(path) : "");
        auto viol = [&](const std::string& inv, const std::string& what) { a.violation(fam + ".stored." + inv, "[" + sn + "] blob written by " + path_name(path) + " (snapshot variant " + std::to_string(v) + "): " + what, cid); };
        auto s = variant(v, w.v2, 100 + v + 10 * path);
        std::optional<dj::track> created;
        try { write_by_path(w, path, s, (v + 2) % 5, created); }
        catch (const std::exception& e)
        {
            // every value in these snapshots is inside the format's domain (labels of at most 255 bytes, 8 slots): nothing to compare
            viol("write_refused", std::string(path_name(path)) + " refused a value the format can hold: " + e.what());
            continue;
        }
        dj::track t = *created;
        a.count("transitions");
        auto rows = w.v2 ? w.query("SELECT quickCues, loops, beatData, trackData FROM Track WHERE id = " + std::to_string(t.id()))
                         : w.query("SELECT quickCues, loops, beatData, trackData FROM perfdata.PerformanceData WHERE id = " + std::to_string(t.id()));
        if (rows.size() != 1) { viol("row_missing", "no performance data row"); continue; }
        bool ok = true;
        std::string why;
        // ---- quick cues
        {
            Bytes payload;
            ref::QuickCues q;
            if (!ref::unframe(unx(rows[0][0]), payload, &why) || !ref::decode(payload, q, &why)) { ok = false; viol("quickCues_unreadable", why); }
            else
            {
                if (q.cues.size() != 8) { ok = false; viol("quickCues_slot_count", "stored " + std::to_string(q.cues.size()) + " cue slots, Engine stores 8"); }
                for (size_t i = 0; i < q.cues.size() && i < 8; ++i)
                {
                    std::optional<dj::hot_cue> want = i < s.hot_cues.size() ? s.hot_cues[i] : std::nullopt;
                    auto& c = q.cues[i];
                    std::string got = hex(c.label) + "@" + d(c.offset) + " argb=" + std::to_string(c.a) + "," + std::to_string(c.r) + "," + std::to_string(c.g) + "," + std::to_string(c.b);
                    std::string exp = want ? hex(want->label) + "@" + d(want->sample_offset) + " argb=" + std::to_string(want->color.a) + "," + std::to_string(want->color.r) + "," + std::to_string(want->color.g) + "," + std::to_string(want->color.b)
                                           : std::string("@-1 argb=0,0,0,0");
                    if (got != exp) { ok = false; viol("quickCues_slot_content", "cue slot " + std::to_string(i) + " stored as " + trunc(got, 80) + ", the layout prescribes " + trunc(exp, 80)); break; }
                }
                double mc = s.main_cue.value_or(0);
                if (ref::bits(q.adjusted_main) != ref::bits(mc) || ref::bits(q.default_main) != ref::bits(mc)) { ok = false; viol("quickCues_main_cue", "main cue stored as " + d(q.adjusted_main) + " / " + d(q.default_main) + ", expected " + d(mc)); }
            }
        }
        // ---- loops
        {
            ref::Loops l;
            if (!ref::decode(unx(rows[0][1]), l, &why)) { ok = false; viol("loops_unreadable", why); }
            else
            {
                if (l.loops.size() != 8) { ok = false; viol("loops_slot_count", "stored " + std::to_string(l.loops.size()) + " loop slots, Engine stores 8"); }
                for (size_t i = 0; i < l.loops.size() && i < 8; ++i)
                {
                    std::optional<dj::loop> want = i < s.loops.size() ? s.loops[i] : std::nullopt;
                    auto& c = l.loops[i];
                    std::string got = hex(c.label) + "@" + d(c.start) + ".." + d(c.end) + " set=" + std::to_string(c.start_set) + "," + std::to_string(c.end_set) + " argb=" + std::to_string(c.a) + "," + std::to_string(c.r) + "," + std::to_string(c.g) + "," + std::to_string(c.b);
                    std::string exp = want ? hex(want->label) + "@" + d(want->start_sample_offset) + ".." + d(want->end_sample_offset) + " set=1,1 argb=" + std::to_string(want->color.a) + "," + std::to_string(want->color.r) + "," + std::to_string(want->color.g) + "," + std::to_string(want->color.b)
                                           : std::string("@-1..-1 set=0,0 argb=0,0,0,0");
                    if (got != exp) { ok = false; viol("loops_slot_content", "loop slot " + std::to_string(i) + " stored as " + trunc(got, 90) + ", the layout prescribes " + trunc(exp, 90)); break; }
                }
            }
        }
        // ---- beat data
        {
            Bytes payload;
            ref::BeatData b;
            if (!ref::unframe(unx(rows[0][2]), payload, &why) || !ref::decode(payload, b, &why)) { ok = false; viol("beatData_unreadable", why); }
            else
            {
                if (ref::bits(b.sample_rate) != ref::bits(s.sample_rate.value_or(0)) || ref::bits(b.samples) != ref::bits((double)s.sample_count.value_or(0)))
                { ok = false; viol("beatData_header", "sample rate / count stored as " + d(b.sample_rate) + " / " + d(b.samples)); }
                for (auto* g : {&b.def, &b.adj})
                {
                    if (g->size() != s.beatgrid.size()) { ok = false; viol("beatData_marker_count", "stored " + std::to_string(g->size()) + " markers, snapshot has " + std::to_string(s.beatgrid.size())); break; }
                    for (size_t i = 0; i < g->size(); ++i)
                    {
                        int64_t nb = i + 1 < g->size() ? (int64_t)s.beatgrid[i + 1].index - s.beatgrid[i].index : 0;
                        if (ref::bits((*g)[i].offset) != ref::bits(s.beatgrid[i].sample_offset) || (*g)[i].beat_number != s.beatgrid[i].index || (*g)[i].number_of_beats != nb)
                        { ok = false; viol("beatData_marker_content", "marker " + std::to_string(i) + " stored as offset " + d((*g)[i].offset) + " beat " + std::to_string((*g)[i].beat_number) + " beats-to-next " + std::to_string((*g)[i].number_of_beats)); break; }
                    }
                }
            }
        }
        // ---- track data
        {
            Bytes payload;
            if (!ref::unframe(unx(rows[0][3]), payload, &why)) { ok = false; viol("trackData_unreadable", why); }
            else if (w.v2)
            {
                ref::TrackData2 td;
                if (!ref::decode(payload, td, &why)) { ok = false; viol("trackData_unreadable", why); }
                else if (ref::bits(td.sample_rate) != ref::bits(s.sample_rate.value_or(0)) || td.samples != (int64_t)s.sample_count.value_or(0) || ref::bits(td.loud_low) != ref::bits(s.average_loudness.value_or(0)) ||
                         ref::bits(td.loud_mid) != ref::bits(s.average_loudness.value_or(0)) || ref::bits(td.loud_high) != ref::bits(s.average_loudness.value_or(0)))
                { ok = false; viol("trackData_content", "stored rate " + d(td.sample_rate) + " samples " + std::to_string(td.samples) + " loudness " + d(td.loud_low) + "/" + d(td.loud_mid) + "/" + d(td.loud_high)); }
            }
            else
            {
                ref::TrackData1 td;
                if (!ref::decode(payload, td, &why) || !td.extra.empty()) { ok = false; viol("trackData_unreadable", why); }
                else if (ref::bits(td.sample_rate) != ref::bits(s.sample_rate.value_or(0)) || td.samples != (int64_t)s.sample_count.value_or(0) || ref::bits(td.loudness) != ref::bits(s.average_loudness.value_or(0)) ||
                         td.key != (s.key ? (int32_t)*s.key : 0))
                { ok = false; viol("trackData_content", "stored rate " + d(td.sample_rate) + " samples " + std::to_string(td.samples) + " loudness " + d(td.loudness) + " key " + std::to_string(td.key)); }
            }
        }
        // ---- waveforms
        {
            auto wrows = w.v2 ? w.query("SELECT overviewWaveFormData FROM Track WHERE id = " + std::to_string(t.id()))
                              : w.query("SELECT overviewWaveFormData, highResolutionWaveFormData FROM perfdata.PerformanceData WHERE id = " + std::to_string(t.id()));
            const unsigned long long cnt = s.sample_count.value_or(0);
            const double rate = s.sample_rate.value_or(0);
            const auto oext = eng::calculate_overview_waveform_extents(cnt, rate);
            Bytes payload;
            ref::Overview ov;
            if (wrows.size() != 1 || !ref::unframe(unx(wrows[0][0]), payload, &why) || !ref::decode(payload, ov, &why)) { ok = false; viol("overviewWaveform_unreadable", why); }
            else if (s.waveform.empty() || oext.size == 0)
            {
                if (!ov.points.empty()) { ok = false; viol("overviewWaveform_points", "stored " + std::to_string(ov.points.size()) + " overview points for a track without a usable waveform"); }
            }
            else
            {
                if (ov.points.size() != oext.size) { ok = false; viol("overviewWaveform_points", "stored " + std::to_string(ov.points.size()) + " overview points, the recommended extent is " + std::to_string(oext.size)); }
                if (ref::bits(ov.samples_per_point) != ref::bits(oext.samples_per_entry)) { ok = false; viol("overviewWaveform_samples_per_point", "stored " + d(ov.samples_per_point) + " samples per point, the extent prescribes " + d(oext.samples_per_entry)); }
                std::array<uint8_t, 3> mx{{0, 0, 0}};
                for (auto& p : ov.points)
                    for (int k = 0; k < 3; ++k) mx[k] = std::max(mx[k], p[k]);
                if (mx != ov.maximum) { ok = false; viol("overviewWaveform_maximum", "the stored maximum point is not the maximum of the stored points"); }
                // content: identity when the snapshot has exactly the recommended number of entries; otherwise every stored point
                // must be the values of some entry of the snapshot's waveform, at non-decreasing positions
                size_t pos = 0;
                for (size_t i = 0; i < ov.points.size() && ok; ++i)
                {
                    auto is = [&](size_t j) { auto& e = s.waveform[j]; return ov.points[i] == std::array<uint8_t, 3>{{e.low.value, e.mid.value, e.high.value}}; };
                    if (s.waveform.size() == ov.points.size()) { if (!is(i)) { ok = false; viol("overviewWaveform_content", "overview point " + std::to_string(i) + " differs from the waveform entry it was given"); } }
                    else
                    {
                        while (pos < s.waveform.size() && !is(pos)) ++pos;
                        if (pos == s.waveform.size()) { ok = false; viol("overviewWaveform_content", "overview point " + std::to_string(i) + " is not taken from the waveform in order"); }
                    }
                }
            }
            if (!w.v2 && wrows.size() == 1)
            {
                const auto hext = eng::calculate_high_resolution_waveform_extents(cnt, rate);
                ref::HighRes hr;
                if (!ref::unframe(unx(wrows[0][1]), payload, &why) || !ref::decode(payload, hr, &why)) { ok = false; viol("highResWaveform_unreadable", why); }
                else
                {
                    if (hr.points.size() != s.waveform.size()) { ok = false; viol("highResWaveform_points", "stored " + std::to_string(hr.points.size()) + " high-resolution points, the snapshot has " + std::to_string(s.waveform.size())); }
                    else
                        for (size_t i = 0; i < hr.points.size(); ++i)
                        {
                            auto& e = s.waveform[i];
                            if (hr.points[i] != std::array<uint8_t, 6>{{e.low.value, e.mid.value, e.high.value, e.low.opacity, e.mid.opacity, e.high.opacity}})
                            { ok = false; viol("highResWaveform_content", "high-resolution point " + std::to_string(i) + " differs from the entry given (values, then opacities)"); break; }
                        }
                    if (!s.waveform.empty() && ref::bits(hr.samples_per_point) != ref::bits(hext.samples_per_entry)) { ok = false; viol("highResWaveform_samples_per_point", "stored " + d(hr.samples_per_point) + " samples per point, the extent prescribes " + d(hext.samples_per_entry)); }
                    std::array<uint8_t, 6> mx{{0, 0, 0, 0, 0, 0}};
                    for (auto& p : hr.points)
                        for (int k = 0; k < 6; ++k) mx[k] = std::max(mx[k], p[k]);
                    if (mx != hr.maximum) { ok = false; viol("highResWaveform_maximum", "the stored maximum point is not the maximum of the stored points"); }
                }
            }
        }
        if (ok) { a.count("validated"); a.count("stored_validated"); }
        a.seen("values", cid);
    }
}
}  // namespace c02s
