// C04 — re-encoding a decoded foreign blob preserves every byte of the uncompressed payload (schema 2.x codecs).
// Shape (I): (1) structured foreign payloads produced by refcodec with features the library never writes;
// (2) every single-byte replacement (all 255 other values at every position) of small valid payloads.
// The setter half (tracks holding foreign blobs, one field changed through the public API) lives in c04_setters.cpp.
#include "c04_setters.hpp"
#include "codec_run.hpp"

namespace
{
using namespace vx;
using namespace cod;

// offsets of bytes that the format defines as booleans and that may be normalised from non-zero to 1
template <class T>
std::vector<size_t> bool_offsets(const typename T::Ref& r)
{
    std::vector<size_t> out;
    if constexpr (std::is_same_v<T, V2Cues>)
    {
        ref::Layout lay;
        ref::encode(r, &lay);
        for (auto& f : lay)
            if (f.name == "is_adjusted") out.push_back(f.off);
    }
    return out;
}

// Decode `payload` with the library, re-encode, and compare byte for byte. Returns "" if fine, "rejected" if the decoder refused.
template <class T>
std::string reencode_check(const Bytes& payload, Agg& a, const std::string& cid, const char* origin, const Bytes* framed_as = nullptr)
{
    const std::string nm = T::name;
    Bytes blob = framed_as ? *framed_as : T::framed ? ref::frame(payload) : payload;
    typename T::Lib v;
    a.count("transitions");
    try
    {
        v = guarded_dec<T>(to_v(blob));
    }
    catch (const seam::HorizonExceeded& h)
    {
        a.violation(nm + ".decoder_does_not_terminate", nm + " does not terminate on a foreign blob: inflate() called " + std::to_string(h.calls) + " times", cid);
        return "bad";
    }
    catch (const std::exception&)
    {
        a.count(std::string("outcome.") + origin + ".decoder_rejected");
        return "rejected";
    }
    a.count(std::string("outcome.") + origin + ".decoder_accepted");
    a.seen("accepted", nm + payload);
    ByteVec out;
    try
    {
        out = T::enc(v);
    }
    catch (const std::exception& e)
    {
        a.violation(nm + ".accepted_blob_cannot_be_rewritten", nm + " decodes a foreign blob but then refuses to encode the decoded value: " + e.what(), cid);
        return "bad";
    }
    a.count("transitions");
    Bytes payload2;
    std::string why;
    if (T::framed)
    {
        if (!ref::unframe(to_s(out), payload2, &why))
        {
            a.violation(nm + ".rewritten_frame", nm + " re-encoded blob does not unframe: " + why, cid);
            return "bad";
        }
    }
    else
        payload2 = to_s(out);
    Bytes expect = payload;
    // normalisation the statement allows: the main-cue-adjusted boolean may go from any non-zero value to 1
    typename T::Ref parsed;
    if (ref::decode(payload, parsed))
        for (size_t off : bool_offsets<T>(parsed))
            if (off < expect.size() && expect[off] != 0) expect[off] = 1;
    if (payload2 != expect)
    {
        size_t first = 0;
        while (first < payload2.size() && first < expect.size() && payload2[first] == expect[first]) ++first;
        Json d = Json::object();
        d["original_payload"] = hex(payload.substr(0, 200));
        d["reencoded_payload"] = hex(payload2.substr(0, 200));
        d["first_difference_at"] = (long long)first;
        d["original_size"] = (long long)payload.size();
        d["reencoded_size"] = (long long)payload2.size();
        // classify: what kind of byte was lost
        std::string cls = "bytes_changed";
        if (payload2.size() != expect.size()) cls = "length_changed";
        a.violation(nm + ".reencode_" + cls, nm + " to_blob(from_blob(x)) changes the payload of an accepted foreign blob (first difference at byte " + std::to_string(first) + ")", cid, d);
        return "bad";
    }
    a.count("validated");
    return "";
}

template <class T>
void structured_value(Agg& a, Chooser& c, const std::string& cid)
{
    a.count("evaluations");
    auto r = T::make_ref(c);
    bool encodable = true;
    if constexpr (std::is_same_v<T, V2Cues>)
        for (auto& q : r.cues) encodable = encodable && q.label.size() <= 255;
    if constexpr (std::is_same_v<T, V2Loops>)
        for (auto& l : r.loops) encodable = encodable && l.label.size() <= 255;
    if (!encodable) { a.count("outcome.structured.not_a_wellformed_blob"); return; }
    Bytes payload = ref::encode(r);
    a.seen("inputs", std::string(T::name) + payload);
    std::string res = reencode_check<T>(payload, a, cid, "structured");
    if (res == "rejected")
        a.violation(std::string(T::name) + ".wellformed_foreign_blob_rejected", std::string(T::name) + " decoder refuses a well-formed foreign blob", cid);
    // The same payload in frames only a foreign writer produces: a length prefix that does not match the stream (it counts
    // only the bytes the writer knew about, or is off by one) and other compression levels. The prefix 0 means "no data" to
    // the library and is left out. The payload is what the zlib stream holds; if the decoder accepts the blob at all, the
    // re-encoded payload must be that, byte for byte.
    if (T::framed && res.empty() && payload.size() > 1)
    {
        const Bytes z = ref::deflate_only(payload);
        const long long n = (long long)payload.size();
        int k = 0;
        for (long long hdr : {n - 1, n - 9 > 0 ? n - 9 : 1, 1ll, n + 1, n + 1000})
        {
            ++k;
            if (hdr == n) continue;
            Bytes blob = ref::frame_raw((int32_t)hdr, z);
            a.count("evaluations");
            reencode_check<T>(payload, a, cid + ":hdr" + std::to_string(k), "foreign_prefix", &blob);
        }
        for (int level : {0, 1, 9})
        {
            Bytes blob = ref::frame(payload, level);
            a.count("evaluations");
            std::string r2 = reencode_check<T>(payload, a, cid + ":z" + std::to_string(level), "foreign_level", &blob);
            if (r2 == "rejected") a.violation(std::string(T::name) + ".wellformed_foreign_blob_rejected", std::string(T::name) + " decoder refuses a well-formed foreign blob compressed at zlib level " + std::to_string(level), cid + ":z" + std::to_string(level));
        }
    }
}

// small base payloads for the byte-mutation half (<= 128 bytes each)
template <class T>
std::vector<Bytes> small_payloads()
{
    std::vector<Bytes> out;
    if constexpr (std::is_same_v<T, V2Beat>)
    {
        ref::BeatData v;
        v.sample_rate = 44100; v.samples = 1e6; v.is_set = 1;
        v.def = {{0.5, -4, 8, 0}, {176400.5, 4, 0, 0}};
        v.adj = {{10.25, 0, 0, 0}};
        v.extra = Bytes(9, '\0');
        out.push_back(ref::encode(v));
        ref::BeatData e;
        e.extra = Bytes("\x05", 1);
        out.push_back(ref::encode(e));
    }
    else if constexpr (std::is_same_v<T, V2Cues>)
    {
        ref::QuickCues v;
        v.cues = {ref::Cue{"Ab", 1000.5, 255, 1, 2, 3}, ref::Cue{}, ref::Cue{"", 7.0, 9, 8, 7, 6}};
        v.adjusted_main = 50.5; v.is_adjusted = 1; v.default_main = 40.25;
        v.extra = Bytes("\x01\x02", 2);
        out.push_back(ref::encode(v));
        out.push_back(ref::encode(ref::QuickCues{}));
    }
    else if constexpr (std::is_same_v<T, V2Loops>)
    {
        ref::Loops v;
        v.loops = {ref::Loop{"L1", 10.5, 20.5, 1, 1, 255, 4, 5, 6}, ref::Loop{}, ref::Loop{"", 1, 2, 2, 0, 0, 0, 0, 9}};
        v.extra = Bytes("\xff", 1);
        out.push_back(ref::encode(v));
        out.push_back(ref::encode(ref::Loops{}));
    }
    else if constexpr (std::is_same_v<T, V2Overview>)
    {
        ref::Overview v;
        v.samples_per_point = 861.5;
        v.points = {{{1, 2, 3}}, {{4, 5, 6}}, {{7, 8, 9}}, {{250, 251, 252}}};
        v.maximum = {{250, 251, 252}};
        v.extra = Bytes("\x00\x01", 2);
        out.push_back(ref::encode(v));
        out.push_back(ref::encode(ref::Overview{}));
    }
    else if constexpr (std::is_same_v<T, V2Track>)
    {
        ref::TrackData2 v;
        v.sample_rate = 48000; v.samples = 123456789; v.key = 7; v.loud_low = 0.1; v.loud_mid = 0.2; v.loud_high = 0.3;
        v.extra = Bytes("\x09\x08\x07", 3);
        out.push_back(ref::encode(v));
    }
    return out;
}

struct MutTask { int codec, base; size_t pos; };

int run(const Options& o)
{
    Evidence ev(o, "model_checking");
    Reporter rep(o.property, build_variant());
    Agg total;
    const double t0 = now_s();
    const double deadline = t0 + (o.deadline_s > 0 ? o.deadline_s : (o.quick() ? 240 : 2400));
    auto structured = [&](auto tag, Agg& a, const std::vector<int>& ch, bool wide, const std::string& cid) {
        using T = typename decltype(tag)::type;
        Chooser c;
        c.wide = wide;
        c.choice = &ch;
        structured_value<T>(a, c, cid);
    };
    auto mutation = [&](auto tag, Agg& a, int base, size_t pos, int val, const std::string& cid) {
        using T = typename decltype(tag)::type;
        Bytes p = small_payloads<T>()[base];
        if ((unsigned char)p[pos] == val) return;
        p[pos] = (char)val;
        a.count("evaluations");
        a.seen("inputs", std::string(T::name) + p);
        reencode_check<T>(p, a, cid, "mutated");
    };
    if (!o.only.empty())
    {
        // "S:<codec>:<choice>:<w|n>" or "M:<codec>:<base>:<pos>:<val>"
        auto parts = split(o.only, ':');
        auto r = run_isolated(300, [&](Emitter& em) {
            Agg a;
            int ci = codec_index(parts[1]);
            with_codec(ci, [&](auto tag) {
                using T = typename decltype(tag)::type;
                if constexpr (T::is_v2)
                {
                    if (parts[0] == "S")
                    {
                        bool wide = parts[3] == "w";
                        auto ch = parse_choice(parts[2], field_sizes<T>(wide).size());
                        structured(tag, a, ch, wide, o.only);
                    }
                    else
                        mutation(tag, a, atoi(parts[2].c_str()), (size_t)atoll(parts[3].c_str()), atoi(parts[4].c_str()), o.only);
                }
            });
            a.flush(em);
        });
        for (auto& l : r.lines) total.merge_line(l, rep);
        if (r.status != CaseResult::Ok) rep.add(Violation{"crash:" + parts[1] + ":" + r.crash_kind, "died: " + r.crash_kind + " in " + r.crash_frame, o.only, Json(r.crash_head)});
        for (auto& kv : rep.firsts()) printf("  %s: %s %s\n", kv.first.c_str(), kv.second.what.c_str(), kv.second.detail.dump(0).c_str());
        return rep.finish();
    }
    // ---------------- phase 1: structured foreign payloads
    const int k = o.quick() ? 2 : 3;
    const bool wide = false;
    const int stripes = o.quick() ? 8 : 32;
    struct STask { int codec, stripe; };
    std::vector<STask> st;
    for (int c = 0; c < 5; ++c)
        for (int s = 0; s < stripes; ++s) st.push_back({c, s});
    bool dl1 = false, dl2 = false;
    size_t done1 = 0, done2 = 0;
    auto res1 = run_pool_sub(
        st.size(), o.jobs, 1800,
        [&](size_t ti, int64_t from, Emitter& em, Sub& sub) {
            Agg a;
            a.live = &em;
            with_codec(st[ti].codec, [&](auto tag) {
                using T = typename decltype(tag)::type;
                if constexpr (T::is_v2)
                {
                    long n = 0;
                    enumerate_choices(field_sizes<T>(wide), k, [&](int64_t idx, const std::vector<int>& ch) {
                        if (idx % stripes != st[ti].stripe || idx < from) return;
                        sub.at(idx);
                        structured(tag, a, ch, wide, std::string("S:") + T::name + ":" + choice_str(ch) + ":n");
                        if (++n % 256 == 0) a.flush(em);
                    });
                }
            });
            a.flush(em);
        },
        nullptr, deadline, &dl1);
    for (size_t i = 0; i < res1.size(); ++i)
    {
        auto& r = res1[i];
        std::string cname = codec_name(st[i].codec);
        for (auto& l : r.lines) total.merge_line(l, rep);
        for (auto& sc : r.subcrashes)
        {
            std::vector<int> bad;
            with_codec(st[i].codec, [&](auto tag) {
                using T = typename decltype(tag)::type;
                enumerate_choices(field_sizes<T>(wide), k, [&](int64_t idx, const std::vector<int>& ch) { if (idx == sc.substep) bad = ch; });
            });
            rep.add(Violation{"crash:" + cname + ":" + sc.kind, cname + " died (" + sc.kind + ") in " + sc.frame, "S:" + cname + ":" + choice_str(bad) + ":n", Json(sc.head)});
        }
        if (r.status != CaseResult::Ok) rep.add(Violation{"crash:" + cname + ":" + r.crash_kind, cname + " died at task level (" + r.crash_kind + ")", "S:" + cname + ":task", Json(r.crash_head)});
        else if (r.crash_kind != "not-run") ++done1;
    }
    // ---------------- phase 2: every single-byte replacement of small valid payloads
    std::vector<MutTask> mt;
    size_t mutated_bytes = 0;
    for (int c = 0; c < 5; ++c)
        with_codec(c, [&](auto tag) {
            using T = typename decltype(tag)::type;
            if constexpr (T::is_v2)
            {
                auto bases = small_payloads<T>();
                for (size_t b = 0; b < bases.size(); ++b)
                    for (size_t p = 0; p < bases[b].size(); ++p) { mt.push_back({c, (int)b, p}); ++mutated_bytes; }
            }
        });
    auto res2 = run_pool_sub(
        mt.size(), o.jobs, 600,
        [&](size_t ti, int64_t from, Emitter& em, Sub& sub) {
            Agg a;
            a.live = &em;
            with_codec(mt[ti].codec, [&](auto tag) {
                using T = typename decltype(tag)::type;
                if constexpr (T::is_v2)
                    for (int val = (int)from; val < 256; ++val)
                    {
                        sub.at(val);
                        mutation(tag, a, mt[ti].base, mt[ti].pos, val, std::string("M:") + T::name + ":" + std::to_string(mt[ti].base) + ":" + std::to_string(mt[ti].pos) + ":" + std::to_string(val));
                    }
            });
            a.flush(em);
        },
        nullptr, deadline, &dl2, 256);
    for (size_t i = 0; i < res2.size(); ++i)
    {
        auto& r = res2[i];
        std::string cname = codec_name(mt[i].codec);
        for (auto& l : r.lines) total.merge_line(l, rep);
        for (auto& sc : r.subcrashes)
            rep.add(Violation{"crash:" + cname + ":" + sc.kind, cname + " died (" + sc.kind + ") in " + sc.frame,
                              "M:" + cname + ":" + std::to_string(mt[i].base) + ":" + std::to_string(mt[i].pos) + ":" + std::to_string(sc.substep), Json(sc.head)});
        if (r.status != CaseResult::Ok) rep.add(Violation{"crash:" + cname + ":" + r.crash_kind, cname + " died at task level (" + r.crash_kind + ")", "M:" + cname + ":task", Json(r.crash_head)});
        else if (r.crash_kind != "not-run") ++done2;
    }
    // ---------------- phase 3: single-field setters on tracks holding foreign blobs (all seven 2.x schemas)
    std::vector<djinterop::engine::engine_schema> v2s(djinterop::engine::supported_v2_schemas.begin(), djinterop::engine::supported_v2_schemas.end());
    auto res3 = run_pool(
        v2s.size(), o.jobs, 600,
        [&](size_t si, Emitter& em) {
            Agg a;
            wm::World w(v2s[si]);
            c04s::run_setters(w, a, wm::schema_name(v2s[si]));
            a.flush(em);
        },
        nullptr, deadline);
    size_t done3 = 0;
    for (size_t i = 0; i < res3.size(); ++i)
    {
        for (auto& l : res3[i].lines) total.merge_line(l, rep);
        if (res3[i].status != CaseResult::Ok) rep.add(Violation{"setter|crash:" + res3[i].crash_kind + "@" + res3[i].crash_frame, "a setter on a track holding foreign blobs died (" + res3[i].crash_kind + ") in " + res3[i].crash_frame, "P:" + wm::schema_name(v2s[i]), Json(res3[i].crash_head)});
        else if (res3[i].crash_kind != "not-run") ++done3;
    }
    rep.set_counts(total.vcount);
    const bool exhaustive = !dl1 && !dl2 && done1 == st.size() && done2 == mt.size() && done3 == v2s.size();
    auto& c = ev.cov();
    c["evaluations"] = total.get("evaluations");
    c["distinct_nontrivial"] = total.ndistinct("accepted");
    c["states"] = total.ndistinct("inputs");
    c["transitions"] = total.get("transitions");
    c["traces_validated_against_impl"] = total.get("validated");
    c["rule"] =
        "(1) structured: for each of the five 2.x blob kinds, refcodec payloads = base + at most k field deviations (k=2 quick, 3 thorough) over entry counts 0..12, every flag / unknown field / "
        "boolean byte in {0,1,2,127,128,255}, int edges, doubles by bit-pattern class, two different grids, trailing data of {0,1,3,9,300} bytes and padding to an exact 16384-byte multiple; a well-formed "
        "foreign blob must be accepted. (2) mutation: every single-byte replacement with all 255 other values at every position of small valid payloads. For every blob the decoder accepts, "
        "unframe(to_blob(from_blob(x))) must equal the original payload byte for byte, except that the main-cue-adjusted byte may go from non-zero to 1. "
        "(3) setters: on each of the seven 2.x schemas a track's five blob columns are overwritten by raw SQL with three sets of foreign blobs (eight slots with odd flag bytes and trailing data; "
        "ten cues and ten loops; five cues and three loops without trailing data; beat data with is_set 2/0, two different grids and non-zero unknown fields) and every public single-field setter "
        "(25 fields, set_hot_cue_at / set_loop_at at 0, 3, 7) is applied: every other blob column must stay byte-identical and in the touched blob only the fields that belong to the setter may "
        "change (field by field through refcodec's layout map). "
        "Distinct non-trivial = distinct payloads the decoder accepted (so that the byte comparison was actually made) plus setter cases.";
    c["exhaustive"] = exhaustive;
    Json b = Json::object();
    b["structured_max_field_deviations"] = k;
    b["structured_tasks"] = (long long)st.size();
    b["structured_tasks_completed"] = (long long)done1;
    b["mutated_byte_positions"] = (long long)mutated_bytes;
    b["mutation_tasks_completed"] = (long long)done2;
    b["setter_schemas_completed"] = (long long)done3;
    b["deadline_hit"] = dl1 || dl2;
    c["bounds"] = b;
    c["counters"] = total.counters_json();
    c["distinct_outcomes"] = total.counters_json("outcome.");
    for (int ci = 0; ci < 5; ++ci)
        with_codec(ci, [&](auto tag) {
            using T = typename decltype(tag)::type;
            if constexpr (T::is_v2)
            {
                Json s = Json::object();
                s["codec"] = T::name;
                s["mutation_base_payload_hex"] = hex(small_payloads<T>()[0]);
                ev.sample(s);
            }
        });
    ev.assumption("payloads are framed by refcodec (zlib level default); only the uncompressed payload is compared, as the statement says");
    ev.assumption("a foreign blob the decoder refuses is outside the quantifier, except well-formed structured ones, which must be accepted");
    for (auto& h : total.harness_errors) fprintf(stderr, "harness error: %s\n", h.c_str());
    int bad = rep.finish();
    if (!total.harness_errors.empty()) bad = -1;
    ev.write(bad < 0 ? 0 : bad, rep.known_hits());
    printf("C04 %s: inputs=%lld accepted=%lld validated=%lld structured tasks=%zu/%zu mutation tasks=%zu/%zu exhaustive=%d wall=%.1fs\n", o.tier.c_str(), total.ndistinct("inputs"),
           total.ndistinct("accepted"), total.get("validated"), done1, st.size(), done2, mt.size(), (int)exhaustive, now_s() - t0);
    return bad;
}
Registrar reg({"C04", "san", "opt", run});
}  // namespace
