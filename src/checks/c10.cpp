// C10 — everything observed before closing is observed after reopening. Shape (S): the composite alphabet is explored in
// memory to enumerate every distinct state up to the depth bound ("closing at every prefix"); for each state its history is
// replayed on an ON-DISK library (tmpfs scratch directory), the full API observation is taken, every handle is released,
// the directory is loaded again and observed again.
#include <sys/stat.h>
#include <unistd.h>

#include "model/composite.hpp"

namespace
{
using namespace vx;
using namespace wm;

// what one crate / track handle answers (the same text is produced through a retained handle before closing and through a lookup by id after reopening)
std::string crate_text(const dj::crate& c)
{
    std::string s = "name=" + c.name() + " parent=";
    auto p = c.parent();
    s += p ? std::to_string(p->id()) : std::string("-");
    s += " tracks=";
    std::vector<int64_t> ids;
    for (auto& t : c.tracks()) ids.push_back(t.id());
    std::sort(ids.begin(), ids.end());
    for (auto i : ids) s += std::to_string(i) + ",";
    return s;
}
std::string track_text(const dj::track& t)
{
    auto title = t.title();
    auto rating = t.rating();
    return "title()=" + (title ? *title : std::string("<none>")) + " rating()=" + (rating ? std::to_string(*rating) : std::string("<none>")) + "\n" + snapshot_str(t.snapshot());
}
std::string first_diff(const std::string& a, const std::string& b)
{
    auto la = split(a, '\n'), lb = split(b, '\n');
    for (size_t k = 0; k < std::max(la.size(), lb.size()); ++k)
    {
        std::string x = k < la.size() ? la[k] : "(missing)", y = k < lb.size() ? lb[k] : "(missing)";
        if (x != y) return "before close: " + trunc(x, 200) + " | after reload: " + trunc(y, 200);
    }
    return "";
}
bool exists(const std::string& p)
{
    struct stat st;
    return stat(p.c_str(), &st) == 0;
}

struct Dom : CompositeBase
{
    static bool step(World& w, Model& m, const Op& op, const Outcome& r, Agg& a, const std::string& cid, bool checking)
    {
        advance(m, op, r, w);
        if (checking)
        {
            a.count("op." + op.f + (r.ok ? ".ok" : ".rejected"));
            if (!r.ok) a.count("rejected_operations");
        }
        (void)cid;
        return true;
    }
    static void visit(World& wmem, Model&, const std::string& cid, Agg& a)
    {
        static int counter = 0;
        const eng::engine_schema sch = wmem.schema;
        const std::string fam = wmem.v2 ? "v2" : "v1";
        const std::string dir = scratch_dir() + "/c10." + std::to_string(getpid()) + "." + std::to_string(counter++);
        auto hist = parse_history(cid.substr(cid.find('|') + 1));
        const std::string last = hist.empty() ? "empty" : hist.back().f;
        auto viol = [&](const std::string& inv, const std::string& what) { a.violation(fam + "|" + inv, "[" + schema_name(sch) + "] " + what, cid); };
        std::string o1, o1_tail, o2, mem_obs, dir_before;
        std::map<int64_t, std::string> held_c, held_t;  // what the retained handles answer just before closing
        bool ok = true;
        try
        {
            // --- an empty directory: create_or_load creates, database_exists is false before and true after
            if (hist.empty())
            {
                mkdir(dir.c_str(), 0700);
                if (eng::database_exists(dir)) viol("database_exists_on_empty_directory", "database_exists() is true for an empty directory");
                bool created = false;
                eng::engine_schema ls{};
                {
                    auto db = eng::create_or_load_database(dir, sch, created, ls);
                    if (!created) viol("create_or_load_did_not_create", "create_or_load_database on an empty directory reported created = false");
                    if (db.version_name() != eng::to_string(sch)) viol("created_wrong_version", "create_or_load_database created version " + db.version_name());
                }
                if (!eng::database_exists(dir)) viol("database_exists_false_after_create", "database_exists() is false after create_or_load_database created a library");
                if (system(("rm -rf '" + dir + "'").c_str())) {}
            }
            {
                World wd(sch, dir, 0);
                for (auto& op : hist)
                {
                    auto r = wd.apply(op);
                    (void)r;
                }
                o1 = observe(wd, true, false);
                mem_obs = observe(wmem, true, false);
                dir_before = wd.db.directory();
                // the stored content itself (canonical dump of every table, the library's uuid masked): the same history leaves the same rows
                // on disk and in memory (a connection configured differently on one creation path shows here before any observer sees it)
                {
                    const std::string dd = wd.dump(), dm = wmem.dump();
                    if (dd != dm) { ok = false; viol("disk_content_differs_from_memory", "same history, different stored rows on disk and in memory: " + first_diff(dm, dd)); }
                }
                // A tail that the exploration cannot produce (it changes no stored state): calls that throw inside the library, followed by
                // one more successful write. If a failed call leaves a transaction open, everything written afterwards is lost on close.
                for (auto& t : wd.db.tracks())
                {
                    (void)wd.guarded([&] { t.set_hot_cue_at(8, dj::hot_cue{"x", 1.0, {}}); });
                    (void)wd.guarded([&] { t.set_loop_at(-1, std::nullopt); });
                }
                {
                    auto roots = wd.db.root_crates();
                    if (roots.size() >= 2) (void)wd.guarded([&] { roots[0].set_name(roots[1].name()); });  // 2.x: UNIQUE violation inside the update's transaction
                    for (auto& c : wd.db.crates()) (void)wd.guarded([&] { c.set_parent(c); });
                }
                (void)wd.guarded([&] { wd.db.create_root_crate("written after failed calls"); });
                // Cross-handle tail: every entity is read through the handle the history kept, changed through a second handle obtained by
                // id, and read again through the first. What a retained handle answers before closing is observable too (a handle that
                // remembers what it read once would answer differently from the library after reopening).
                for (auto& c : wd.crates) (void)wd.guarded([&] { if (c.is_valid()) { (void)c.name(); (void)c.parent(); (void)c.tracks(); } });
                for (auto& t : wd.tracks) (void)wd.guarded([&] { if (t.is_valid()) { (void)t.title(); (void)t.rating(); (void)t.snapshot(); } });
                for (auto& c : wd.crates)
                    (void)wd.guarded([&] {
                        if (!c.is_valid()) return;
                        auto other = wd.db.crate_by_id(c.id());
                        if (other) other->set_name(c.name() + " (2nd handle)");
                    });
                for (auto& t : wd.tracks)
                    (void)wd.guarded([&] {
                        if (!t.is_valid()) return;
                        auto other = wd.db.track_by_id(t.id());
                        if (other) { other->set_title(std::string("via second handle")); other->set_rating(40); }
                    });
                for (auto& c : wd.crates) (void)wd.guarded([&] { if (c.is_valid()) held_c[c.id()] = crate_text(c); });
                for (auto& t : wd.tracks) (void)wd.guarded([&] { if (t.is_valid()) held_t[t.id()] = track_text(t); });
                o1_tail = observe(wd, true, false);
            }  // every handle released here
            if (!seam::opened_handles().empty() && false) {}
            // on-disk and in-memory libraries behave alike (differential: same history, same observation apart from the uuid)
            {
                auto strip = [](std::string s) {
                    auto p = s.find("db.uuid = ");
                    if (p != std::string::npos) s.erase(p, s.find('\n', p) - p);
                    return s;
                };
                if (strip(o1) != strip(mem_obs)) viol("disk_differs_from_memory", "same history observed differently on disk and in memory: " + first_diff(strip(mem_obs), strip(o1)));
            }
            if (!eng::database_exists(dir)) viol("database_exists_false", "database_exists() is false for a directory holding a library");
            {
                World wl(sch, dir, 1);
                o2 = observe(wl, true, false);
                if (wl.loaded_schema != sch) viol("loaded_schema", "load_database reported schema " + (wl.loaded_schema == eng::engine_schema::schema_3_0_0 ? std::string("(not set)") : schema_name(wl.loaded_schema)) + " for a library created as " + schema_name(sch));
            }
            if (o1_tail != o2) { ok = false; viol("observation_changed_by_reopen", first_diff(o1_tail, o2)); }
            {
                World wl(sch, dir, 1);
                if (wl.db.directory() != dir_before) { ok = false; viol("directory_changed_by_reopen", "directory() was " + dir_before + " before closing and is " + wl.db.directory() + " after reopening"); }
            }
            if (wmem.v2)
            {
                // the second public loader of a 2.x library must show the same library
                size_t before = seam::opened_handles().size();
                auto lib = eng::v2::engine_library::load(dir);
                if (seam::opened_handles().size() <= before) throw std::runtime_error("C10: SQLite handle not captured");
                if (lib.directory() != dir_before) { ok = false; viol("directory_changed_by_reopen", "directory() was " + dir_before + " before closing; v2::engine_library::load(...).directory() is " + lib.directory()); }
                World wl(sch, lib.database(), seam::opened_handles().back());
                if (wl.db.directory() != dir_before) { ok = false; viol("directory_changed_by_reopen", "directory() was " + dir_before + " before closing; the database of v2::engine_library::load reports " + wl.db.directory()); }
                std::string o2b = observe(wl, true, false);
                if (o2b != o2) { ok = false; viol("second_loader_observes_differently", first_diff(o2, o2b)); }
            }
            {
                World wl(sch, dir, 1);
                for (auto& kv : held_c)
                {
                    auto c = wl.db.crate_by_id(kv.first);
                    std::string now = c ? crate_text(*c) : std::string("(no such crate)");
                    if (now != kv.second) { ok = false; viol("retained_crate_handle_differs_from_reopened", "crate " + std::to_string(kv.first) + " through the handle kept since its creation: " + trunc(kv.second, 120) + "; after reopening: " + trunc(now, 120)); }
                }
                for (auto& kv : held_t)
                {
                    auto t = wl.db.track_by_id(kv.first);
                    std::string now = t ? track_text(*t) : std::string("(no such track)");
                    if (now != kv.second) { ok = false; viol("retained_track_handle_differs_from_reopened", "track " + std::to_string(kv.first) + " through the handle kept since its creation: " + trunc(first_diff(kv.second, now), 200)); }
                }
                a.count("retained_handles_compared", (long long)(held_c.size() + held_t.size()));
            }
            // create_or_load on an existing library loads it, whatever schema is asked for
            for (int other = 0; other < 2; ++other)
            {
                eng::engine_schema ask = other == 0 ? sch : (wmem.v2 ? eng::latest_v1_schema : eng::latest_v2_schema);
                bool created = true;
                eng::engine_schema ls = eng::engine_schema::schema_3_0_0;
                std::string o3;
                {
                    size_t before = seam::opened_handles().size();
                    auto db = eng::create_or_load_database(dir, ask, created, ls);
                    (void)before;
                    if (created) viol(other ? "create_or_load_created_beside_existing" : "create_or_load_created_over_existing", "create_or_load_database reported created = true for a directory that already holds a library (asked for " + schema_name(ask) + ")");
                    if (db.version_name() != eng::to_string(sch)) viol("create_or_load_wrong_version", "create_or_load_database returned version " + db.version_name());
                    if (ls != sch) viol("create_or_load_loaded_schema", "create_or_load_database reported loaded schema " + (ls == eng::engine_schema::schema_3_0_0 ? std::string("(not set)") : schema_name(ls)));
                    std::string t;
                    for (auto& tr : db.tracks()) t += std::to_string(tr.id()) + ",";
                    for (auto& cr : db.crates()) t += "c" + std::to_string(cr.id()) + ",";
                    o3 = t;
                }
                World wl(sch, dir, 1);
                std::string o4 = observe(wl, true, false);
                if (o4 != o2) viol("create_or_load_changed_library", "library differs after create_or_load_database: " + first_diff(o2, o4));
            }
            // nothing may be left behind that a later open would trip over
            for (const char* f : {"/m.db-journal", "/p.db-journal", "/Database2/m.db-journal", "/m.db-wal", "/Database2/m.db-wal"})
                if (exists(dir + f)) viol("journal_left_behind", std::string("file left after closing: ") + f);
        }
        catch (const std::exception& e)
        {
            ok = false;
            viol("reopen_throws", std::string("replaying / reloading on disk threw: ") + e.what());
        }
        if (system(("rm -rf '" + dir + "'").c_str())) {}
        a.count("evaluations");
        if (ok) a.count("validated");
        a.seen("nontrivial", hash128(o1));
    }
};

int run(const Options& o)
{
    Evidence ev(o, "model_checking");
    Reporter rep(o.property, build_variant());
    Agg total;
    const double t0 = now_s();
    if (!o.only.empty())
    {
        auto r = run_isolated(120, [&](Emitter& em) {
            Agg a;
            auto sch = schema_by_name(o.only.substr(0, o.only.find('|')));
            World w(*sch);
            Dom::Model m;
            ex::rebuild<Dom>(w, m, parse_history(o.only.substr(o.only.find('|') + 1)), a);
            Dom::visit(w, m, o.only, a);
            a.flush(em);
        });
        for (auto& l : r.lines) total.merge_line(l, rep);
        if (r.status != CaseResult::Ok) rep.add(Violation{"crash:" + r.crash_kind, "died: " + r.crash_kind + " in " + r.crash_frame, o.only, Json(r.crash_head)});
        for (auto& kv : rep.firsts()) printf("  %s: %s\n", kv.first.c_str(), kv.second.what.c_str());
        return rep.finish();
    }
    ex::Cfg cfg;
    cfg.schemas = all_schemas();
    if (const char* e = getenv("VX_SCHEMAS"))
    {
        cfg.schemas.clear();
        for (auto& n : split(e, ','))
            if (auto s = schema_by_name(n)) cfg.schemas.push_back(*s);
    }
    cfg.depth = o.quick() ? 2 : 3;
    if (const char* e = getenv("VX_DEPTH")) cfg.depth = atoi(e);
    cfg.visit_states = true;
    cfg.check_restore = false;
    cfg.deadline_abs = t0 + (o.deadline_s > 0 ? o.deadline_s : (o.quick() ? 280 : 3000));
    auto st = ex::explore<Dom>(o, cfg, rep, total);
    rep.set_counts(total.vcount);
    bool exhaustive = !st.deadline_hit;
    for (auto& kv : st.depth_by_schema)
        if (kv.second < cfg.depth) exhaustive = false;
    auto& c = ev.cov();
    c["states"] = st.states;
    c["transitions"] = st.transitions;
    c["traces_validated_against_impl"] = total.get("validated");
    c["evaluations"] = total.get("evaluations");
    c["distinct_nontrivial"] = total.ndistinct("nontrivial");
    c["rule"] =
        "The composite alphabet (create_track from two snapshots, update with two snapshots, set_title / set_hot_cues / set_rating, remove_track, create_root_crate, create_sub_crate, set_name, "
        "set_parent, add_track, crate.remove_track, clear_tracks, remove_crate; <= 2 live tracks, <= 3 live crates; three seeds) is explored breadth-first in memory to enumerate every distinct "
        "state up to the depth bound. For EACH distinct state its history is replayed on an on-disk library created with create_database(dir, schema) in a tmpfs scratch directory; the full "
        "public-API observation (every getter and snapshot of every track, every crate query, uuid, version name) is taken; then calls that throw inside the library (slot index 8 / -1, rename to a "
        "sibling's name, self-parent) and one more successful write follow, and the observation is taken again; all handles are released, load_database(dir, loaded) is called and "
        "the observation repeated: both must be identical (before closing every entity is also changed through a second handle obtained by id, and what the handle kept since its creation answers then must equal what a lookup by id answers after reopening), `loaded` must be the creating schema, directory() must be unchanged, a 2.x library loaded through v2::engine_library::load must give the same observation and directory, the on-disk observation must equal the in-memory one for the same history, database_exists must "
        "be true, create_or_load_database must report created = false (also when a schema of the other generation is requested) and leave the library unchanged, and on an empty directory "
        "created = true. Non-trivial = distinct observations.";
    c["exhaustive"] = exhaustive;
    Json b = Json::object();
    b["depth"] = cfg.depth;
    Json dbs = Json::object();
    for (auto& kv : st.depth_by_schema) dbs[kv.first] = kv.second;
    b["depth_completed_by_schema"] = dbs;
    b["deadline_hit"] = st.deadline_hit;
    c["bounds"] = b;
    c["counters"] = total.counters_json();
    for (auto& h : st.sample_histories) ev.sample(Json(h));
    if (st.sample_histories.empty()) ev.sample(Json("(none)"));
    ev.assumption("scratch directories live on tmpfs (/dev/shm); real-disk sync behaviour is SQLite's concern and crash points are not in this property's quantifier");
    for (auto& h : total.harness_errors) fprintf(stderr, "harness error: %s\n", h.c_str());
    int bad = rep.finish();
    if (!total.harness_errors.empty()) bad = -1;
    ev.write(bad < 0 ? 0 : bad, rep.known_hits());
    printf("C10 %s: states=%lld reopened=%lld validated=%lld exhaustive=%d wall=%.1fs\n", o.tier.c_str(), st.states, total.get("evaluations"), total.get("validated"), (int)exhaustive, now_s() - t0);
    return bad;
}
Registrar reg({"C10", "san", "opt", run});
}  // namespace
