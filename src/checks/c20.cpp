// C20 — Beat-grid normalisation brackets the track and keeps its tempo.
// Shape (I): every strictly increasing n-subset of a 15-point lattice around the
// track x every index assignment from small alphabets x several sample counts,
// compared with an exact rational reference (scaled __int128 arithmetic).
#include <algorithm>
#include <cmath>
#include <cstring>

#include <djinterop/engine/engine.hpp>

#include "common/agg.hpp"
#include "common/core.hpp"

using namespace vx;
namespace e = djinterop::engine;
using djinterop::beatgrid_marker;
typedef __int128 i128;

namespace
{
const int64_t COUNTS[] = {1, 1000, 8820000, 1ll << 31, 1ll << 40};
const int FIRST_IDX[] = {-8, -4, 0, 3};
const int GAPS[] = {1, 2, 4, 7};

std::vector<double> lattice(int64_t count)
{
    double end = (double)count;
    double T = (double)std::max<int64_t>(1, count / 8);
    double mid = std::floor(end / 2);
    std::vector<double> l = {-2 * T, -T, -1, 0, 1, T / 2, T, mid, end - 2 * T, end - T, end - 1, end, end + 1, end + T, end + 2 * T};
    std::sort(l.begin(), l.end());
    l.erase(std::unique(l.begin(), l.end()), l.end());
    return l;
}

std::string grid_str(const std::vector<beatgrid_marker>& g)
{
    std::string s;
    char b[64];
    for (auto& m : g)
    {
        snprintf(b, sizeof b, "%d@%a,", m.index, m.sample_offset);
        s += b;
    }
    if (!s.empty()) s.pop_back();
    return s;
}
std::string case_id(const std::vector<beatgrid_marker>& g, int64_t count) { return "count=" + std::to_string(count) + ";grid=" + grid_str(g); }

double ulp(double x)
{
    x = std::fabs(x);
    if (x < 1) x = 1;
    return std::nextafter(x, INFINITY) - x;
}
i128 ceil_div(i128 n, i128 d)  // d > 0
{
    i128 q = n / d, r = n % d;
    if (r != 0 && ((r > 0) == (d > 0))) ++q;
    return q;
}

struct Checker
{
    Agg& a;
    void fail(const char* key, const std::vector<beatgrid_marker>& g, int64_t count, const std::string& what,
              const std::vector<beatgrid_marker>* out = nullptr)
    {
        Json d = Json::object();
        d["input"] = grid_str(g);
        d["sample_count"] = (long long)count;
        if (out) d["output"] = grid_str(*out);
        a.violation(key, what, case_id(g, count), d);
    }

    void check(const std::vector<beatgrid_marker>& g, int64_t count)
    {
        a.count("evaluations");
        const size_t n = g.size();
        const double end = (double)count;
        // classification by the natural trimming rule
        bool all_before = true, all_after = true;
        for (auto& m : g)
        {
            if (!(m.sample_offset < 0)) all_before = false;
            if (!(m.sample_offset > end)) all_after = false;
        }
        size_t A = 0, B = n ? n - 1 : 0;
        for (size_t i = 0; i < n; ++i)
            if (g[i].sample_offset <= 0) A = i;
        for (size_t i = 0; i < n; ++i)
            if (g[i].sample_offset >= end) { B = i; break; }
        const bool must_succeed = n >= 2 && B > A && g.front().sample_offset < end && g.back().sample_offset > 0;
        const bool must_reject = n == 1 || (n >= 2 && (all_before || all_after));

        // Grids that overlap the track but cannot be normalised (the statement's last sentence): invalid_argument is the
        // required answer. Two classes are decided before the general reference below because the reference itself would
        // divide by zero / leave the integer range on them.
        bool must_reject_unnormalisable = false;
        if (must_succeed)
        {
            // the normalised last beat index must be representable: tempos so small that it is far outside int32 must be
            // refused; a band around the limit is left to either answer
            auto S0 = [&](double off) { return (i128)std::llround(off * 2); };
            const i128 D0 = S0(g[B].sample_offset) - S0(g[B - 1].sample_offset);
            const i128 N0 = ((i128)count * 2 - S0(g[B].sample_offset)) * (g[B].index - g[B - 1].index);
            i128 q0 = N0 / D0;
            if (q0 < 0) q0 = -q0;
            if (q0 > ((i128)1 << 33)) { a.count("class.last_index_unrepresentable"); must_reject_unnormalisable = true; }
            else if (q0 > ((i128)1 << 30))
            {
                a.count("skipped.last_index_near_int_limit");
                return;
            }
        }
        if (must_succeed && g[A].index < -4 && g[A + 1].index <= -4)
        {
            // renumbering the first retained marker to -4 would put it at or past the next marker
            a.count("class.first_cannot_reach_-4");
            must_reject_unnormalisable = true;
        }
        std::vector<beatgrid_marker> out;
        bool threw = false, threw_ia = false;
        try
        {
            out = e::normalize_beatgrid(g, count);
        }
        catch (const std::invalid_argument&) { threw = threw_ia = true; }
        catch (const std::exception&) { threw = true; }
        if (threw && !threw_ia) fail("wrong_exception", g, count, "rejected with an exception that is not std::invalid_argument");
        if (n == 0)
        {
            a.count("outcome.empty");
            if (!threw && !out.empty()) fail("empty_grid", g, count, "empty grid normalised to a non-empty grid", &out);
            return;
        }
        if (must_reject)
        {
            a.count("outcome.must_reject");
            if (!threw) fail("must_reject_accepted", g, count, "single-marker / wholly-outside grid was accepted instead of invalid_argument", &out);
            return;
        }
        if (!must_succeed)
        {
            a.count(threw ? "outcome.touching_rejected" : "outcome.touching_accepted");
            return;  // touches 0 / end only: either outcome allowed by the statement
        }
        a.count("nontrivial");
        if (must_reject_unnormalisable)
        {
            a.count("outcome.unnormalisable");
            if (!threw) fail(g[A].index < -4 ? "first_below_-4.not_increasing" : "unnormalisable_accepted", g, count, "a grid that cannot be normalised (first marker cannot reach beat -4 before the next marker, or last beat index not representable) was accepted instead of invalid_argument", &out);
            return;
        }
        // --- exact reference over scaled integers (all offsets are multiples of 0.5) ---
        auto S = [&](double off) { return (i128)std::llround(off * 2); };
        const i128 E2 = (i128)count * 2;
        // first marker: off_A - (4 + i_A) * spb_first, spb_first = (off_{A+1}-off_A)/(i_{A+1}-i_A)
        const long double spb_first = ((long double)(S(g[A + 1].sample_offset) - S(g[A].sample_offset)) / 2) / (g[A + 1].index - g[A].index);
        const long double exp_first = (long double)S(g[A].sample_offset) / 2 - (long double)(4 + g[A].index) * spb_first;
        // last marker
        const i128 D = S(g[B].sample_offset) - S(g[B - 1].sample_offset);
        const int di = g[B].index - g[B - 1].index;
        const i128 N = (E2 - S(g[B].sample_offset)) * di;
        const i128 m = ceil_div(N, D);
        const bool x_integer = (N % D) == 0;
        const bool spb_exact = ((D % di) == 0);  // spb is then a multiple of 0.5 and exactly representable
        i128 rem = N % D;
        if (rem < 0) rem += D;
        const long double frac_dist = (long double)std::min(rem, D - rem) / (long double)D;
        const long double xabs = std::fabs((long double)N / (long double)D);
        const bool ambiguous = (x_integer && !spb_exact) || (!x_integer && frac_dist / std::max<long double>(1, xabs) < 1e-12L);
        const long double spb_last = ((long double)D / 2) / di;
        // the last marker, moved by m beats, must stay after its predecessor (which is the renumbered first marker when only
        // two markers are retained); otherwise the grid cannot be normalised and must be refused
        {
            const i128 prev_index = B - 1 == A ? -4 : (i128)g[B - 1].index;
            const i128 new_last = (i128)g[B].index + m;
            const bool cannot = new_last <= prev_index;
            const bool borderline = ambiguous && (new_last == prev_index || new_last == prev_index + 1);
            if (borderline) { a.count("skipped.last_index_borderline"); return; }
            if (cannot)
            {
                a.count("outcome.unnormalisable");
                a.count("class.last_passes_predecessor");
                if (!threw) fail(g[A].index < -4 ? "first_below_-4.not_increasing" : "unnormalisable_accepted", g, count, "the last marker would have to move to or before its predecessor: the grid cannot be normalised and should be refused with invalid_argument", &out);
                return;
            }
        }
        if (threw)
        {
            fail("must_succeed_rejected", g, count, "grid with >= 2 markers overlapping the track was rejected");
            return;
        }
        a.count("outcome.normalised");

        // strictly increasing (checked first: for a first retained index below -4 the library moves the first marker
        // forward, and a non-increasing result there is one known defect class, reported under its own key)
        bool inc = true;
        for (size_t i = 1; i < out.size(); ++i)
            if (!(out[i].index > out[i - 1].index) || !(out[i].sample_offset > out[i - 1].sample_offset)) inc = false;
        if (!inc && g[A].index < -4)
        {
            a.count("outcome.first_below_-4_not_increasing");
            fail("first_below_-4.not_increasing", g, count,
                 "first retained marker has beat index < -4: it is moved forward to index -4 and the result is not strictly increasing (should be rejected)", &out);
            return;
        }
        const size_t exp_size = B - A + 1;
        if (out.size() != exp_size)
        {
            fail("size", g, count, "output has " + std::to_string(out.size()) + " markers, expected " + std::to_string(exp_size) +
                                      " (markers from the last one at/before 0 to the first one at/after the end)", &out);
            return;
        }
        if (out[0].index != -4) fail("first_index", g, count, "first marker index is not -4", &out);
        double tol0 = 16 * ulp(std::max({std::fabs(g[A].sample_offset), std::fabs(g[A + 1].sample_offset), (double)std::fabs(exp_first)}));
        if (!(std::fabs((long double)out[0].sample_offset - exp_first) <= tol0))
            fail("first_offset", g, count, "first marker is not the input's first retained segment extrapolated to beat -4 (tempo of first segment not kept)", &out);
        // interior markers unchanged
        for (size_t i = 1; i + 1 < exp_size; ++i)
        {
            const auto& in = g[A + i];
            if (out[i].index != in.index || memcmp(&out[i].sample_offset, &in.sample_offset, 8) != 0)
            {
                fail("interior", g, count, "interior marker inside the track was changed", &out);
                break;
            }
        }
        // last marker
        const auto& L = out.back();
        double tolL = 16 * ulp(std::max({std::fabs(g[B].sample_offset), std::fabs(g[B - 1].sample_offset), end, std::fabs(L.sample_offset)}));
        bool last_ok = false;
        for (int dm = 0; dm <= (ambiguous ? 1 : 0) && !last_ok; ++dm)
            for (int sgn : {0, 1, -1})
            {
                if (dm == 0 && sgn != 0) continue;
                if (dm == 1 && sgn == 0) continue;
                i128 mm = m + sgn * dm;
                long double exp_last = (long double)S(g[B].sample_offset) / 2 + (long double)mm * spb_last;
                long long exp_idx = (long long)g[B].index + (long long)mm;
                // when the output has exactly two markers the last index is relative to the original index of B
                if (L.index == exp_idx && std::fabs((long double)L.sample_offset - exp_last) <= tolL) { last_ok = true; break; }
            }
        if (ambiguous) a.count("fp_ambiguous_last");
        if (!last_ok)
            fail("last_position", g, count,
                 "last marker is not the first beat of the last segment at or after the end of the track (must be >= end and < end + one beat, tempo of last segment kept)", &out);
        // explicit bracket check
        if (!(L.sample_offset >= end - tolL)) fail("last_before_end", g, count, "last marker lies before the end of the track", &out);
        if (!ambiguous && !(L.sample_offset < end + (double)spb_last + tolL)) fail("last_too_far", g, count, "last marker is a full beat or more past the end", &out);
        if (!inc) fail("not_increasing", g, count, "output is not strictly increasing in index and offset", &out);
        // idempotence
        if (inc)
        {
            std::vector<beatgrid_marker> out2;
            bool t2 = false;
            try { out2 = e::normalize_beatgrid(out, count); }
            catch (const std::exception&) { t2 = true; }
            a.count("evaluations");
            if (t2) fail("idempotent", g, count, "normalising the normalised grid throws", &out);
            else if (L.sample_offset < end) a.count("fp_undershoot_skipped_idempotence");
            else
            {
                bool same = out2.size() == out.size();
                for (size_t i = 0; same && i < out.size(); ++i)
                {
                    double t = 64 * ulp(std::max(std::fabs(out[i].sample_offset), end));
                    if (out2[i].index != out[i].index || !(std::fabs(out2[i].sample_offset - out[i].sample_offset) <= t)) same = false;
                }
                if (!same) fail("idempotent", g, count, "N(N(g)) differs from N(g) beyond floating-point rounding", &out2);
            }
        }
    }
};

struct Task { int ci; int n; int first_lat; };

// Enumerates the grids of one task in a fixed order; fn(k, grid) is called for every k >= from.
void enumerate(int64_t count, const std::vector<double>& lat, int n, int first_lat, int64_t resume,
               const std::function<void(int64_t, const std::vector<beatgrid_marker>&)>& fn)
{
    int64_t idx = 0;
    // choose lattice positions pos[0]=first_lat < pos[1] < ... ; then index assignments
    std::vector<int> pos(n);
    std::vector<beatgrid_marker> g(n);
    std::function<void(int, int)> rec_pos = [&](int k, int from) {
        if (k == n)
        {
            for (int k2 = 0; k2 < n; ++k2) g[k2].sample_offset = lat[pos[k2]];
            // indices: first from FIRST_IDX, gaps product
            std::vector<int> gi(n - 1, 0);
            for (int f : FIRST_IDX)
            {
                std::fill(gi.begin(), gi.end(), 0);
                for (;;)
                {
                    g[0].index = f;
                    for (int k2 = 1; k2 < n; ++k2) g[k2].index = g[k2 - 1].index + GAPS[gi[k2 - 1]];
                    if (idx >= resume) fn(idx, g);
                    ++idx;
                    int c = 0;
                    while (c < n - 1 && ++gi[c] == 4) gi[c++] = 0;
                    if (c == n - 1) break;
                }
            }
            return;
        }
        for (int p = from; p < (int)lat.size(); ++p)
        {
            pos[k] = p;
            rec_pos(k + 1, p + 1);
        }
    };
    pos[0] = first_lat;
    rec_pos(1, first_lat + 1);
}

std::vector<beatgrid_marker> parse_grid(const std::string& s)
{
    std::vector<beatgrid_marker> g;
    if (s.empty()) return g;
    for (auto& t : split(s, ','))
    {
        auto at = t.find('@');
        beatgrid_marker m;
        m.index = atoi(t.substr(0, at).c_str());
        m.sample_offset = strtod(t.c_str() + at + 1, nullptr);
        g.push_back(m);
    }
    return g;
}

int run(const Options& o)
{
    Evidence ev(o, "model_checking");
    Reporter rep(o.property, build_variant());
    Agg total;
    if (!o.only.empty())
    {
        int64_t count = 0;
        std::string gs;
        for (auto& kv : split(o.only, ';'))
        {
            if (kv.rfind("count=", 0) == 0) count = atoll(kv.c_str() + 6);
            if (kv.rfind("grid=", 0) == 0) gs = kv.substr(5);
        }
        auto res = run_isolated(60, [&](Emitter& em) {
            Agg a;
            Checker{a}.check(parse_grid(gs), count);
            a.flush(em);
        });
        if (res.status != CaseResult::Ok) rep.add(Violation{"crash:" + res.crash_kind, "normalize_beatgrid died: " + res.crash_kind, o.only, Json(res.crash_head)});
        for (auto& l : res.lines) total.merge_line(l, rep);
        for (auto& kv : rep.firsts()) printf("  %s: %s %s\n", kv.first.c_str(), kv.second.what.c_str(), kv.second.detail.dump(0).c_str());
        return rep.finish();
    }
    const int nmax = o.quick() ? 5 : 7;
    const double t_start = now_s();
    const double deadline = t_start + (o.deadline_s > 0 ? o.deadline_s : (o.quick() ? 240 : 2400));
    std::vector<Task> tasks;
    for (int ci = 0; ci < 5; ++ci)
    {
        auto lat = lattice(COUNTS[ci]);
        for (int n = 2; n <= nmax; ++n)
            for (int f = 0; f + n <= (int)lat.size(); ++f) tasks.push_back({ci, n, f});
        tasks.push_back({ci, 0, 0});  // empty grid, single markers
    }
    if (const char* tsel = getenv("VX_C20_TASK"))
    {
        int a = 0, b = 0, c2 = 0;
        sscanf(tsel, "%d,%d,%d", &a, &b, &c2);
        tasks = {Task{a, b, c2}};
    }
    // big tasks first for balance
    std::stable_sort(tasks.begin(), tasks.end(), [](const Task& x, const Task& y) { return x.n > y.n; });
    bool deadline_hit = false;
    PoolStats st;
    auto task_grids = [&](const Task& t, int64_t from, const std::function<void(int64_t, const std::vector<beatgrid_marker>&)>& fn) {
        auto lat = lattice(COUNTS[t.ci]);
        if (t.n == 0)
        {
            int64_t k = 0;
            if (k >= from) fn(k, {});
            ++k;
            for (double x : lat)
                for (int f : FIRST_IDX)
                {
                    if (k >= from) fn(k, {beatgrid_marker{f, x}});
                    ++k;
                }
        }
        else
            enumerate(COUNTS[t.ci], lat, t.n, t.first_lat, from, fn);
    };
    auto res = run_pool_sub(
        tasks.size(), o.jobs, 1800,
        [&](size_t i, int64_t from, Emitter& em, Sub& sub) {
            Agg a;
            a.live = &em;
            Checker ck{a};
            const Task& t = tasks[i];
            auto lat = lattice(COUNTS[t.ci]);
            task_grids(t, from, [&](int64_t k, const std::vector<beatgrid_marker>& g) {
                sub.at(k);
                ck.check(g, COUNTS[t.ci]);
                if ((k & 0xffff) == 0xffff) a.flush(em);
            });
            Json s = Json::object();
            s["sample_count"] = (long long)COUNTS[t.ci];
            s["markers"] = t.n;
            s["first_lattice_point"] = t.n ? lat[t.first_lat] : 0.0;
            a.sample(s);
            a.flush(em);
        },
        &st, deadline, &deadline_hit);
    size_t done = 0;
    for (size_t i = 0; i < res.size(); ++i)
    {
        auto& r = res[i];
        if (r.status != CaseResult::Ok)
        {
            rep.add(Violation{"crash:" + r.crash_kind, "normalize_beatgrid died (" + r.crash_kind + ") in " + r.crash_frame,
                              "task count=" + std::to_string(COUNTS[tasks[i].ci]) + " n=" + std::to_string(tasks[i].n) + " first=" + std::to_string(tasks[i].first_lat),
                              Json(r.crash_head)});
            continue;
        }
        if (r.crash_kind == "not-run") continue;
        ++done;
        for (auto& l : r.lines) total.merge_line(l, rep);
        for (auto& sc : r.subcrashes)
        {
            // name the crashing grid by re-enumerating the task up to that sub-step
            std::vector<beatgrid_marker> bad;
            bool found = false;
            task_grids(tasks[i], sc.substep, [&](int64_t k, const std::vector<beatgrid_marker>& g) {
                if (!found && k == sc.substep) { bad = g; found = true; }
            });
            total.count("crashed_grids");
            if (getenv("VX_C20_TASK")) printf("subcrash %s %s\n", sc.kind.c_str(), case_id(bad, COUNTS[tasks[i].ci]).c_str());
            rep.add(Violation{"crash:" + sc.kind, "normalize_beatgrid died (" + sc.kind + ") in " + sc.frame, case_id(bad, COUNTS[tasks[i].ci]), Json(sc.head)});
        }
    }
    rep.set_counts(total.vcount);
    // Isolated witnesses for the two input classes excluded above because they reach undefined behaviour.
    struct W { const char* key; const char* what; int64_t count; std::vector<beatgrid_marker> g; };
    std::vector<W> ws = {
        {"ub.last_index_overflow", "tempo so small that the normalised last beat index exceeds int range: signed overflow / out-of-range cast instead of invalid_argument",
         1ll << 31, {{0, 0.0}, {7, 1.0}}},
        {"ub.zero_index_span", "two retained markers, first index < -4 and second index == -4: after renumbering the index span is 0, division by zero -> inf cast to int32",
         1000, {{-8, 0.0}, {-4, 62.5}}},
    };
    for (auto& w : ws)
    {
        auto r = run_isolated(30, [&](Emitter& em) {
            std::string res;
            try
            {
                auto out = e::normalize_beatgrid(w.g, w.count);
                bool inc = true;
                for (size_t i = 1; i < out.size(); ++i)
                    if (!(out[i].index > out[i - 1].index) || !(out[i].sample_offset > out[i - 1].sample_offset)) inc = false;
                res = inc ? "ok" : "not_increasing:" + grid_str(out);
            }
            catch (const std::invalid_argument&) { res = "rejected"; }
            catch (const std::exception&) { res = "wrong_exception"; }
            em.emit(res);
        });
        total.count("isolated_witnesses");
        std::string cid = case_id(w.g, w.count);
        if (r.status != CaseResult::Ok)
            rep.add(Violation{w.key, std::string(w.what) + " [" + r.crash_kind + "]", cid, Json(r.crash_head)});
        else if (!r.lines.empty() && r.lines[0] != "ok" && r.lines[0] != "rejected")
            rep.add(Violation{w.key, std::string(w.what) + " [returned " + r.lines[0] + "]", cid, Json(r.lines[0])});
    }
    const bool exhaustive = !deadline_hit && done == tasks.size();
    auto& c = ev.cov();
    c["evaluations"] = total.get("evaluations");
    c["distinct_nontrivial"] = total.get("nontrivial");
    c["rule"] =
        "Every strictly increasing n-subset (2 <= n <= nmax) of a 15-point lattice {-2T,-T,-1,0,1,T/2,T,mid,end-2T,end-T,end-1,end,end+1,end+T,end+2T} (T = count/8) x "
        "first index in {-8,-4,0,3} x every gap vector over {1,2,4,7} x sample counts {1,1000,8820000,2^31,2^40}, plus the empty grid and every single marker. "
        "Each grid is distinct by construction; non-trivial = at least two markers properly overlapping the track. For those the exact rational reference first decides whether the grid can be "
        "normalised at all: if the first retained marker (index below -4) cannot reach beat -4 before the next marker, if the last marker would have to move to or before its predecessor, or if "
        "the last beat index is far outside int32, the call must throw invalid_argument (counters class.*); otherwise the call must succeed and every post-condition (index -4, exact position of "
        "first/last marker from the reference, interior markers bit-identical, strictly increasing, idempotence) is evaluated. Cases within rounding distance of a class border are counted as skipped.*.";
    c["states"] = total.get("evaluations") - total.get("outcome.normalised");  // distinct input grids (second evaluation is the idempotence re-run)
    c["transitions"] = total.get("evaluations");
    c["traces_validated_against_impl"] = total.get("nontrivial");
    c["exhaustive"] = exhaustive;
    Json b = Json::object();
    b["max_markers"] = nmax;
    b["tasks_total"] = (long long)tasks.size();
    b["tasks_completed"] = (long long)done;
    b["deadline_hit"] = deadline_hit;
    c["bounds"] = b;
    c["counters"] = total.counters_json();
    c["distinct_outcomes"] = total.counters_json("outcome.");
    for (auto& s : total.samples) ev.sample(s);
    ev.assumption("offsets restricted to the lattice (multiples of 0.5) so the reference can be computed exactly in scaled __int128; tolerance 16 ulp of the largest operand");
    ev.assumption("grids that merely touch 0 or the end of the track may be accepted or rejected (statement covers overlapping grids); counted under outcome.touching_*");
    ev.assumption("when (end - last)/samples_per_beat is an exact integer but samples_per_beat is not exactly representable, m and m+-1 are both accepted (counted as fp_ambiguous_last)");
    for (auto& h : total.harness_errors) fprintf(stderr, "harness error: %s\n", h.c_str());
    int bad = rep.finish();
    if (!total.harness_errors.empty()) bad = -1;
    ev.write(bad < 0 ? 0 : bad, rep.known_hits());
    printf("C20 %s: grids=%ld nontrivial=%lld tasks=%zu/%zu exhaustive=%d wall=%.1fs\n", o.tier.c_str(), c["states"].i, total.get("nontrivial"), done, tasks.size(),
           (int)exhaustive, now_s() - t_start);
    return bad;
}
Registrar reg({"C20", "san", "opt", run});
}  // namespace
