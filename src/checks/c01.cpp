// C01 — track data written through a snapshot reads back unchanged (fixed point, no silent corruption).
// Shape (I): snapshots = one of four base snapshots with at most k fields replaced by a value of that field's alphabet
// (model/trackfields.cpp, the same table as C06, plus list-shape and size extremes), written by create_track and by
// update over each previously stored base, on all 18 schemas.
#include <climits>

#include "codecs.hpp"  // cod::enumerate_choices
#include "model/explore.hpp"
#include "model/trackfields.hpp"

namespace
{
using namespace vx;
using namespace wm;

// extra snapshot-only deviations (index continues after the table's values of that field)
struct Extra
{
    std::string field, desc;
    std::function<void(dj::track_snapshot&)> put;
    bool must_succeed;
    bool predict_absent;  // expected read-back of the field's primary fact is not predicted
};
std::vector<Extra> extras()
{
    std::vector<Extra> E;
    auto lab = [](size_t n) { return std::string(n, 'L'); };
    E.push_back({"hot_cues", "12 slots", [](dj::track_snapshot& s) { s.hot_cues.assign(12, dj::hot_cue{"c", 5.0, {}}); }, false, true});
    E.push_back({"hot_cues", "9 slots, last empty", [](dj::track_snapshot& s) { s.hot_cues.assign(9, std::nullopt); s.hot_cues[0] = dj::hot_cue{"c", 5.0, {}}; }, false, true});
    E.push_back({"hot_cues", "label of 255 bytes in slot 7", [lab](dj::track_snapshot& s) { s.hot_cues.assign(8, std::nullopt); s.hot_cues[7] = dj::hot_cue{lab(255), 5.0, {1, 2, 3, 4}}; }, true, true});
    E.push_back({"hot_cues", "label of 256 bytes", [lab](dj::track_snapshot& s) { s.hot_cues.assign(8, std::nullopt); s.hot_cues[3] = dj::hot_cue{lab(256), 5.0, {}}; }, false, true});
    E.push_back({"hot_cues", "offset -1 in slot 0", [](dj::track_snapshot& s) { s.hot_cues.assign(8, std::nullopt); s.hot_cues[0] = dj::hot_cue{"neg", -1.0, {}}; }, false, true});
    E.push_back({"hot_cues", "offset 0 and fractional", [](dj::track_snapshot& s) { s.hot_cues.assign(8, std::nullopt); s.hot_cues[0] = dj::hot_cue{"zero", 0.0, {0, 0, 0, 0}}; s.hot_cues[5] = dj::hot_cue{"frac", 0.125, {255, 255, 255, 255}}; }, true, true});
    E.push_back({"hot_cues", "empty label", [](dj::track_snapshot& s) { s.hot_cues.assign(8, std::nullopt); s.hot_cues[2] = dj::hot_cue{"", 9.0, {}}; }, false, true});
    E.push_back({"loops", "12 slots", [](dj::track_snapshot& s) { s.loops.assign(12, dj::loop{"l", 5.0, 6.0, {}}); }, false, true});
    E.push_back({"loops", "label of 255 bytes in slot 0", [lab](dj::track_snapshot& s) { s.loops.assign(8, std::nullopt); s.loops[0] = dj::loop{lab(255), 5.0, 6.0, {1, 2, 3, 4}}; }, true, true});
    E.push_back({"loops", "label of 256 bytes", [lab](dj::track_snapshot& s) { s.loops.assign(8, std::nullopt); s.loops[3] = dj::loop{lab(256), 5.0, 6.0, {}}; }, false, true});
    E.push_back({"loops", "offsets -1", [](dj::track_snapshot& s) { s.loops.assign(8, std::nullopt); s.loops[7] = dj::loop{"neg", -1.0, -1.0, {}}; }, false, true});
    E.push_back({"beatgrid", "single marker", [](dj::track_snapshot& s) { s.beatgrid = {{0, 100.0}}; }, false, true});
    E.push_back({"beatgrid", "64 markers", [](dj::track_snapshot& s) { s.beatgrid.clear(); for (int i = 0; i < 64; ++i) s.beatgrid.push_back({i * 4 - 4, 10.5 + 1000.0 * i}); }, true, true});
    E.push_back({"beatgrid", "32768 markers (the 1.x decoder's limit)", [](dj::track_snapshot& s) { s.beatgrid.clear(); for (int i = 0; i < 32768; ++i) s.beatgrid.push_back({i, 10.5 + 100.0 * i}); }, true, true});
    E.push_back({"beatgrid", "32769 markers", [](dj::track_snapshot& s) { s.beatgrid.clear(); for (int i = 0; i < 32769; ++i) s.beatgrid.push_back({i, 10.5 + 100.0 * i}); }, false, true});
    E.push_back({"beatgrid", "two markers at the same offset", [](dj::track_snapshot& s) { s.beatgrid = {{0, 1000.0}, {4, 1000.0}, {8, 5000.0}}; }, false, true});
    E.push_back({"beatgrid", "two markers with the same index", [](dj::track_snapshot& s) { s.beatgrid = {{0, 1000.0}, {0, 2000.0}, {8, 5000.0}}; }, false, true});
    E.push_back({"beatgrid", "unsorted", [](dj::track_snapshot& s) { s.beatgrid = {{4, 100.0}, {0, 50.0}}; }, false, true});
    E.push_back({"waveform", "one entry", [](dj::track_snapshot& s) { s.waveform.assign(1, dj::waveform_entry{{9, 9}, {8, 8}, {7, 7}}); }, false, true});
    E.push_back({"waveform", "recommended size + 1", [](dj::track_snapshot& s) { s.waveform.push_back(dj::waveform_entry{}); }, false, true});
    E.push_back({"relative_path", "absent", [](dj::track_snapshot& s) { s.relative_path.reset(); }, false, true});
    E.push_back({"relative_path", "5000 bytes", [](dj::track_snapshot& s) { s.relative_path = std::string(4996, 'p') + ".mp3"; }, true, true});
    E.push_back({"title", "embedded NUL", [](dj::track_snapshot& s) { s.title = std::string("a\0b", 3); }, false, true});
    E.push_back({"title", "5000 bytes", [](dj::track_snapshot& s) { s.title = std::string(5000, 't'); }, true, true});
    E.push_back({"bitrate", "INT_MIN", [](dj::track_snapshot& s) { s.bitrate = INT_MIN; }, false, true});
    E.push_back({"year", "INT_MAX", [](dj::track_snapshot& s) { s.year = INT_MAX; }, false, true});
    E.push_back({"track_number", "INT_MIN", [](dj::track_snapshot& s) { s.track_number = INT_MIN; }, false, true});
    E.push_back({"bpm", "1e15", [](dj::track_snapshot& s) { s.bpm = 1e15; }, false, true});
    E.push_back({"sample_rate", "denormal", [](dj::track_snapshot& s) { s.sample_rate = 4.9406564584124654e-324; }, false, true});
    E.push_back({"last_played_at", "2^31 s", [](dj::track_snapshot& s) { s.last_played_at = std::chrono::system_clock::time_point{std::chrono::seconds{1ll << 31}}; }, true, true});
    return E;
}

struct Slot  // one deviation field: the table values followed by the extras of that field
{
    const Field* f;
    std::vector<const Extra*> ex;
    int size() const { return 1 + (int)f->values.size() + (int)ex.size(); }  // 0 = keep the base's value
};
const std::vector<Slot>& slots()
{
    static std::vector<Extra> E = extras();
    static std::vector<Slot> S = [] {
        std::vector<Slot> s;
        for (auto& f : fields())
        {
            Slot sl{&f, {}};
            for (auto& e : E)
                if (e.field == f.name) sl.ex.push_back(&e);
            s.push_back(sl);
        }
        return s;
    }();
    return S;
}

dj::track_snapshot base_snapshot(int kind, bool v2, int n)
{
    auto s = example_snapshot(kind, n);
    if (s.sample_count && s.sample_rate)
    {
        auto ext = v2 ? eng::calculate_overview_waveform_extents(*s.sample_count, *s.sample_rate) : eng::calculate_high_resolution_waveform_extents(*s.sample_count, *s.sample_rate);
        for (unsigned long long i = 0; i < ext.size; ++i)
        {
            uint8_t a = (uint8_t)(i * 255 / ext.size), b = (uint8_t)(i * 127 / ext.size), c = (uint8_t)(i * 63 / ext.size);
            if (v2) s.waveform.push_back({{a}, {b}, {c}});
            else s.waveform.push_back({{a, a}, {b, b}, {c, c}});
        }
    }
    return s;
}

struct Built
{
    dj::track_snapshot snap;
    bool must_succeed = true;
    // expectations: fact name -> allowed texts (empty = not predicted)
    std::map<std::string, std::vector<std::string>> expect;
    std::vector<std::pair<std::string, std::string>> exact;
    std::set<std::string> touched;  // fields that deviate from the base
    std::string desc;
};
Built build(int base_kind, const std::vector<int>& choice, bool v2, int n)
{
    Built b;
    b.snap = base_snapshot(base_kind, v2, n);
    auto& S = slots();
    for (size_t i = 0; i < S.size(); ++i)
    {
        int c = i < choice.size() ? choice[i] : 0;
        if (c == 0) continue;
        const Field& f = *S[i].f;
        b.touched.insert(f.name);
        if (c - 1 < (int)f.values.size())
        {
            auto& v = f.values[(size_t)c - 1];
            v.put(b.snap);
            b.must_succeed = b.must_succeed && v.must_succeed;
            auto& allowed = v2 ? v.allowed_v2 : v.allowed_v1;
            if (!allowed.empty()) b.expect[f.facts[0]] = allowed;
            for (auto& e : v.extra_expect)
                if (e.first.find("_at(") == std::string::npos && e.first != "filename" && e.first != "file_extension") b.exact.push_back(e);
            b.desc += f.name + "=" + v.desc + "; ";
        }
        else
        {
            auto& e = *S[i].ex[(size_t)c - 1 - f.values.size()];
            if (e.desc.rfind("3276", 0) == 0 && base_kind != 2) continue;  // the two 0.8 MB grids are written over one base only (cost)
            e.put(b.snap);
            b.must_succeed = b.must_succeed && e.must_succeed;
            b.desc += f.name + "=" + e.desc + "; ";
            // "never silently corrupted": if the write is accepted, the value must read back as given (lists padded to eight slots);
            // a cue or loop whose offset is the reserved -1 may read back as an empty slot; waveforms are derived data
            if (f.name != "waveform")
            {
                dj::track_snapshot padded = b.snap;
                if (padded.hot_cues.size() < 8) padded.hot_cues.resize(8);
                if (padded.loops.size() < 8) padded.loops.resize(8);
                std::vector<std::string> allowed = {facts_of(snapshot_str(padded), "snapshot.")[f.facts[0]]};
                dj::track_snapshot alt = padded;
                for (auto& c : alt.hot_cues) if (c && c->sample_offset == -1) c.reset();
                for (auto& l : alt.loops) if (l && l->start_sample_offset == -1) l.reset();
                allowed.push_back(facts_of(snapshot_str(alt), "snapshot.")[f.facts[0]]);
                b.expect[f.facts[0]] = allowed;
            }
        }
    }
    // a path without an extension cannot be typed by 2.x; a snapshot without a path cannot be written at all
    // (the extension is that of the file name, not of a directory on the way: "rips.2019/side_a" has none)
    if (b.snap.relative_path)
    {
        auto slash = b.snap.relative_path->find_last_of('/');
        std::string file = slash == std::string::npos ? *b.snap.relative_path : b.snap.relative_path->substr(slash + 1);
        if (file.find('.') == std::string::npos) b.must_succeed = false;
    }
    return b;
}

using Facts = std::map<std::string, std::string>;
Facts snap_facts(const dj::track_snapshot& s) { return facts_of(snapshot_str(s), "snapshot."); }

struct Task
{
    eng::engine_schema schema;
    int base;  // base snapshot kind of the written snapshot
    int mode;  // -1 = create_track, 0..3 = update over a track previously created from base kind `mode`
};

void check_one(World& w, const Task& t, const std::vector<int>& choice, const Image& img, Agg& a, const std::string& cid)
{
    const std::string fam = w.v2 ? "v2" : "v1";
    const std::string how = t.mode < 0 ? "create_track" : "update";
    a.count("evaluations");
    Built b = build(t.base, choice, w.v2, 50);
    a.seen("inputs", snapshot_str(b.snap) + how + std::to_string(t.mode));
    auto viol = [&](const std::string& inv, const std::string& what) {
        std::string fields;
        for (auto& f : b.touched) fields += (fields.empty() ? "" : "+") + f;
        a.violation(fam + "|" + how + "|" + inv, "[" + schema_name(w.schema) + "] " + how + " with {" + b.desc + "}: " + what, cid);
    };
    // world layout (from the task's image): tracks[0] = bystander, tracks[1] = update target (update mode only)
    const std::string bystander0 = observe_track(w.tracks[0]);
    const std::string d0 = w.dump();
    Outcome r;
    dj::track target = w.tracks[t.mode < 0 ? 0 : 1];
    {
        seam::SqlArm arm;
        r = w.guarded([&] {
            if (t.mode < 0) target = w.db.create_track(b.snap);
            else target.update(b.snap);
        });
    }
    if (!r.ok)
    {
        a.count("outcome.rejected");
        if (!r.std_ex) viol("non_std_exception", "threw " + r.ex_type);
        if (b.must_succeed) viol("rejected_valid_snapshot", "a snapshot built from ordinary values was rejected: " + r.ex_type + ": " + r.what);
        if (w.dump() != d0) viol("rejected_but_changed", "the write threw (" + r.ex_type + ") but the database changed");
        w.restore(img);
        return;
    }
    a.count("outcome.accepted");
    bool ok = true;
    try
    {
        // (a) read-back
        dj::track_snapshot r1;
        try { r1 = target.snapshot(); }
        catch (const std::exception& e)
        {
            viol("silent_corruption:snapshot_throws", std::string("the write returned but snapshot() now throws: ") + e.what());
            w.restore(img);
            return;
        }
        Facts f1 = snap_facts(r1), fin = snap_facts(b.snap);
        for (auto& kv : b.expect)
            if (std::find(kv.second.begin(), kv.second.end(), f1[kv.first]) == kv.second.end())
            {
                // 1.x derives the tempo from the beat grid when one is stored: bpm is then not an independent field
                if (kv.first == "bpm" && !w.v2 && r1.beatgrid.size() >= 2) continue;
                ok = false;
                viol("field_not_preserved:" + kv.first, kv.first + " reads back as " + trunc(f1[kv.first], 120) + ", allowed: " + trunc(join(kv.second, " or "), 200));
            }
        for (auto& e : b.exact)
            if (f1[e.first] != e.second) { ok = false; viol("field_not_preserved:" + e.first, e.first + " reads back as " + trunc(f1[e.first], 120) + ", expected " + trunc(e.second, 120)); }
        // every field that was NOT deviated holds an ordinary value of the base snapshot and must read back exactly as written
        // (this is what catches a transposed column binding in one of the hand-written INSERT / UPDATE / SELECT lists)
        {
            dj::track_snapshot padded = b.snap;
            if (padded.hot_cues.size() < 8) padded.hot_cues.resize(8);
            if (padded.loops.size() < 8) padded.loops.resize(8);
            Facts want = snap_facts(padded);
            static const std::map<std::string, std::set<std::string>> group = {
                {"sample_count", {"sample_count", "sample_rate", "waveform", "beatgrid", "bpm", "duration"}}, {"sample_rate", {"sample_count", "sample_rate", "waveform", "beatgrid", "bpm", "duration"}},
                {"waveform", {"waveform"}}, {"beatgrid", {"beatgrid", "bpm"}}, {"bpm", {"bpm"}}, {"duration", {"duration"}}, {"hot_cues", {"hot_cues", "main_cue"}}, {"main_cue", {"main_cue", "hot_cues"}}};
            // the base waveform has the size the library recommends for the base's sample count and rate (1024 overview points
            // without opacity on 2.x, the high-resolution extent on 1.x), which is the representable case: it reads back as
            // given unless the waveform itself or the count / rate it is sized by was deviated (groups below)
            std::set<std::string> skip;
            for (auto& tf : b.touched)
            {
                skip.insert(tf);
                auto g = group.find(tf);
                if (g != group.end()) skip.insert(g->second.begin(), g->second.end());
            }
            if (!w.v2 && r1.beatgrid.size() >= 2) skip.insert("bpm");                                       // 1.x derives the tempo from the grid
            if (!w.v2 && w.schema < eng::engine_schema::schema_1_15_0) skip.insert("file_bytes");            // no such column before 1.15.0
            for (auto& kv : want)
            {
                if (skip.count(kv.first)) continue;
                if (f1[kv.first] != kv.second)
                {
                    ok = false;
                    viol("base_field_not_preserved:" + kv.first, "field " + kv.first + " (not deviated, ordinary value) was written as " + trunc(kv.second, 80) + " but reads back as " + trunc(f1[kv.first], 80));
                }
            }
        }
        // (b) fixed point: writing the read-back again changes nothing
        target.update(r1);
        dj::track_snapshot r2 = target.snapshot();
        if (snapshot_str(r2) != snapshot_str(r1))
        {
            ok = false;
            Facts f2 = snap_facts(r2);
            std::string diff;
            for (auto& kv : f1)
                if (f2[kv.first] != kv.second && diff.size() < 200) diff += kv.first + ": " + trunc(kv.second, 60) + " -> " + trunc(f2[kv.first], 60) + "; ";
            std::string first = diff.substr(0, diff.find(':'));
            viol("not_a_fixed_point:" + first, "writing the read-back snapshot again changes it: " + diff);
        }
        // getters agree with the snapshot
        Facts obs = facts_of(observe_track(target), "track#" + std::to_string(target.id()) + ".");
        for (auto& kv : obs)
        {
            if (kv.first.rfind("snapshot.", 0) != 0) continue;
            auto it = obs.find(kv.first.substr(9));
            if (it != obs.end() && it->second != kv.second) { ok = false; viol("getter_differs_from_snapshot:" + kv.first.substr(9), kv.first.substr(9) + "() = " + trunc(it->second, 80) + " but snapshot has " + trunc(kv.second, 80)); }
        }
        // (c) bystander and track count
        if (observe_track(w.tracks[0]) != bystander0 && !(t.mode < 0 && false)) { ok = false; viol("bystander_changed", "another track's data changed"); }
        size_t want_tracks = (t.mode < 0 ? 1 : 2) + (t.mode < 0 ? 1 : 0);
        if (w.db.tracks().size() != want_tracks) { ok = false; viol("track_count", "database::tracks() has " + std::to_string(w.db.tracks().size()) + " entries, expected " + std::to_string(want_tracks)); }
    }
    catch (const std::exception& e)
    {
        ok = false;
        viol("silent_corruption:later_call_throws", std::string("after the write returned, a later read or re-write threw: ") + e.what());
    }
    if (ok) a.count("validated");
    w.restore(img);
}

int run(const Options& o)
{
    Evidence ev(o, "model_checking");
    Reporter rep(o.property, build_variant());
    Agg total;
    const double t0 = now_s();
    seam::sql_ctl.vm_budget = 50000000;
    std::vector<int> sizes;
    for (auto& s : slots()) sizes.push_back(s.size());
    auto make_world = [&](const Task& t, World& w) {
        // tracks[0] = bystander (fully analysed, distinct path); tracks[1] = update target
        w.tracks.push_back(w.db.create_track(base_snapshot(2, w.v2, 10)));
        if (t.mode >= 0) w.tracks.push_back(w.db.create_track(base_snapshot(t.mode, w.v2, 50)));
    };
    if (!o.only.empty())
    {
        // "<schema>|<base>|<mode>|<choice>"
        auto parts = split(o.only, '|');
        auto r = run_isolated(120, [&](Emitter& em) {
            Agg a;
            Task t{*schema_by_name(parts[0]), atoi(parts[1].c_str()), atoi(parts[2].c_str())};
            World w(t.schema);
            make_world(t, w);
            Image img = w.save();
            auto ch = cod::parse_choice(parts[3], sizes.size());
            check_one(w, t, ch, img, a, o.only);
            a.flush(em);
        });
        for (auto& l : r.lines) total.merge_line(l, rep);
        if (r.status != CaseResult::Ok) rep.add(Violation{"crash:" + r.crash_kind + "@" + r.crash_frame, "died: " + r.crash_kind + " in " + r.crash_frame, o.only, Json(r.crash_head)});
        for (auto& kv : rep.firsts()) printf("  %s: %s\n", kv.first.c_str(), kv.second.what.c_str());
        return rep.finish();
    }
    const int k = getenv("VX_C01_K") ? atoi(getenv("VX_C01_K")) : (o.quick() ? 1 : 2);
    std::vector<Task> tasks;
    auto schemas = all_schemas();
    if (const char* e = getenv("VX_SCHEMAS"))
    {
        schemas.clear();
        for (auto& n : split(e, ','))
            if (auto s = schema_by_name(n)) schemas.push_back(*s);
    }
    for (auto s : schemas)
        for (int base = 0; base < 4; ++base)
            for (int mode = -1; mode < 4; ++mode)
            {
                if (!o.quick() && k >= 2 && mode >= 0 && mode != 0 && mode != 3) continue;  // thorough: create + update over the minimal and the fullest stored snapshot
                tasks.push_back({s, base, mode});
            }
    const double deadline = t0 + (o.deadline_s > 0 ? o.deadline_s : (o.quick() ? 280 : 3000));
    bool dl = false;
    g_substep_timeout_s = 30;
    auto res = run_pool_sub(
        tasks.size(), o.jobs, 3600,
        [&](size_t ti, int64_t from, Emitter& em, Sub& sub) {
            Agg a;
            a.live = &em;
            const Task& t = tasks[ti];
            World w(t.schema);
            make_world(t, w);
            Image img = w.save();
            const std::string prefix = schema_name(t.schema) + "|" + std::to_string(t.base) + "|" + std::to_string(t.mode) + "|";
            long n = 0;
            cod::enumerate_choices(sizes, k, [&](int64_t idx, const std::vector<int>& ch) {
                if (idx < from) return;
                sub.at(idx);
                std::string cid = prefix + cod::choice_str(ch);
                sub.label(cid);
                check_one(w, t, ch, img, a, cid);
                if (++n % 128 == 0) a.flush(em);
            });
            a.flush(em);
        },
        nullptr, deadline, &dl, 100000);
    size_t done = 0;
    for (size_t i = 0; i < res.size(); ++i)
    {
        auto& r = res[i];
        for (auto& l : r.lines) total.merge_line(l, rep);
        const std::string fam = is_v2(tasks[i].schema) ? "v2" : "v1";
        const std::string how = tasks[i].mode < 0 ? "create_track" : "update";
        for (auto& sc : r.subcrashes)
        {
            total.count("crashed_writes");
            rep.add(Violation{fam + "|" + how + "|" + (sc.timeout ? "hang" : "crash:" + sc.kind) + "@" + sc.frame, "[" + schema_name(tasks[i].schema) + "] " + how + (sc.timeout ? " hangs" : " dies: " + sc.kind) + " in " + sc.frame,
                              sc.label, Json(sc.head)});
        }
        if (r.status != CaseResult::Ok) rep.add(Violation{fam + "|task|crash:" + r.crash_kind, "task died (" + r.crash_kind + ") in " + r.crash_frame, schema_name(tasks[i].schema) + "|task", Json(r.crash_head)});
        else if (r.crash_kind != "not-run") ++done;
    }
    rep.set_counts(total.vcount);
    const bool exhaustive = !dl && done == tasks.size();
    long long per_task = 0;
    cod::enumerate_choices(sizes, k, [&](int64_t, const std::vector<int>&) { ++per_task; });
    auto& c = ev.cov();
    c["evaluations"] = total.get("evaluations") + total.get("crashed_writes");
    c["distinct_nontrivial"] = total.ndistinct("inputs");
    c["states"] = total.ndistinct("inputs");
    c["transitions"] = total.get("evaluations") + total.get("crashed_writes");
    c["traces_validated_against_impl"] = total.get("validated");
    c["rule"] =
        "Snapshots = one of four base snapshots (minimal; metadata only; fully analysed; fully analysed with all eight cue and loop slots) with at most k of the 26 fields (k=" + std::to_string(k) +
        ") replaced by a value of the field's alphabet: the C06 table (absent, '' / 0 sentinels, ordinary, multi-byte UTF-8, 300-byte strings, clamped ratings, sub-second durations and timestamps, "
        "c_major, slot lists of 0 / 3 / 8 entries with entries in slots 0 and 7, grids of 0 / 2 / 3 markers) plus snapshot-only extremes (12 and 9 slots, labels of 255 and 256 bytes, offsets -1 / 0 / "
        "fractional, empty labels, one-marker / unsorted / 64-marker grids, waveform of 1 entry and of recommended size + 1, no path, 5000-byte path and title, embedded NUL, INT_MIN / INT_MAX, 1e15, "
        "denormal rate, 2^31 s). Each is written by create_track and by update over a track previously created from each base (" + std::to_string(per_task) + " snapshots per (schema, base, mode) "
        "task). Oracle per accepted write: every deviated field reads back as one of the texts the normalisation table allows; writing the read-back snapshot to the same track and reading "
        "again yields the identical snapshot (fixed point); every getter equals its snapshot field; a bystander track and the track count are unchanged. A write that throws must be a "
        "std::exception, leave the database unchanged, and may not happen for snapshots built only from ordinary values. Distinct = distinct (snapshot, mode) inputs.";
    c["exhaustive"] = exhaustive;
    Json b = Json::object();
    b["max_field_deviations"] = k;
    b["snapshots_per_task"] = per_task;
    b["tasks_total"] = (long long)tasks.size();
    b["tasks_completed"] = (long long)done;
    b["deadline_hit"] = dl;
    c["bounds"] = b;
    c["counters"] = total.counters_json();
    c["distinct_outcomes"] = total.counters_json("outcome.");
    Json s1 = Json::object();
    s1["case"] = "2.18.0|2|-1|13=2";
    s1["meaning"] = "schema 2.18.0, base = fully analysed, create_track, field 13 replaced by its value 2";
    ev.sample(s1);
    Json s2 = Json::object();
    s2["case"] = "1.6.0|3|0|base";
    s2["meaning"] = "schema 1.6.0, snapshot with all eight slots written by update over a track created from the minimal snapshot";
    ev.sample(s2);
    ev.assumption("normalisation table in src/model/trackfields.cpp (shared with C06); a waveform of the recommended size (every base snapshot has one) must read back as given unless the waveform, sample count or sample rate was deviated; deviated waveforms follow the table (1.x as given; 2.x only the empty and the 1024-entry full-opacity waveform are predicted); bpm on 1.x when a beat grid is stored is derived data held to the fixed-point and no-later-exception requirements only");
    for (auto& h : total.harness_errors) fprintf(stderr, "harness error: %s\n", h.c_str());
    int bad = rep.finish();
    if (!total.harness_errors.empty()) bad = -1;
    ev.write(bad < 0 ? 0 : bad, rep.known_hits());
    printf("C01 %s: writes=%lld accepted=%lld validated=%lld tasks=%zu/%zu exhaustive=%d wall=%.1fs\n", o.tier.c_str(), total.get("evaluations"), total.get("outcome.accepted"), total.get("validated"), done,
           tasks.size(), (int)exhaustive, now_s() - t0);
    return bad;
}
Registrar reg({"C01", "san", "opt", run});
}  // namespace
