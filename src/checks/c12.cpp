// C12 — a created library matches the reference schema of its version. Shape (I) over a finite configuration space that
// is enumerated whole: 18 versions x {create_database on disk, create_temporary_database} x every reference dump under
// testdata/ref/engine (hydrated with plain sqlite3_exec and assigned to a version by its own Information row).
#include <dirent.h>
#include <sys/stat.h>
#include <unistd.h>

#include "common/agg.hpp"
#include "model/schemafp.hpp"
#include "model/world.hpp"

namespace
{
using namespace vx;
using namespace wm;

struct RefDump
{
    std::string dir, name;  // .../sc5000/firmware-1.0.3
    bool v2;
    std::string m_sql, p_sql;
};
std::vector<RefDump> find_refs()
{
    std::vector<RefDump> out;
    std::string root = repo_root() + "/testdata/ref/engine";
    for (const char* fam : {"desktop", "ep", "sc5000"})
    {
        std::string fd = root + "/" + fam;
        DIR* d = opendir(fd.c_str());
        if (!d) continue;
        std::vector<std::string> names;
        while (auto* e = readdir(d))
            if (e->d_name[0] != '.') names.push_back(e->d_name);
        closedir(d);
        std::sort(names.begin(), names.end());
        for (auto& n : names)
        {
            RefDump r;
            r.dir = fd + "/" + n;
            r.name = std::string(fam) + "/" + n;
            struct stat st;
            if (stat((r.dir + "/Database2/m.db.sql").c_str(), &st) == 0) { r.v2 = true; r.m_sql = r.dir + "/Database2/m.db.sql"; }
            else if (stat((r.dir + "/m.db.sql").c_str(), &st) == 0) { r.v2 = false; r.m_sql = r.dir + "/m.db.sql"; r.p_sql = r.dir + "/p.db.sql"; }
            else continue;
            out.push_back(r);
        }
    }
    return out;
}
struct Hydrated
{
    sqlite3* db = nullptr;
    ~Hydrated() { if (db) sqlite3_close(db); }
};
void hydrate(Hydrated& h, const std::string& sql_file)
{
    if (sqlite3_open(":memory:", &h.db) != SQLITE_OK) throw std::runtime_error("cannot open memory db");
    std::string sql = read_file(sql_file);
    char* err = nullptr;
    if (sqlite3_exec(h.db, sql.c_str(), nullptr, nullptr, &err) != SQLITE_OK)
    {
        std::string m = err ? err : "?";
        sqlite3_free(err);
        throw std::runtime_error("hydrating " + sql_file + ": " + m);
    }
}
// independent version table: (major, minor, patch[, variant]) -> schema name
std::string version_to_schema(int ma, int mi, int pa, bool desktop_family)
{
    static const std::map<std::tuple<int, int, int>, std::string> t = {
        {{1, 6, 0}, "1.6.0"}, {{1, 7, 1}, "1.7.1"}, {{1, 9, 1}, "1.9.1"}, {{1, 11, 1}, "1.11.1"}, {{1, 13, 0}, "1.13.0"}, {{1, 13, 1}, "1.13.1"}, {{1, 13, 2}, "1.13.2"},
        {{1, 15, 0}, "1.15.0"}, {{1, 17, 0}, "1.17.0"}, {{2, 18, 0}, "2.18.0"}, {{2, 20, 1}, "2.20.1"}, {{2, 20, 2}, "2.20.2"}, {{2, 20, 3}, "2.20.3"},
        {{2, 21, 0}, "2.21.0"}, {{2, 21, 1}, "2.21.1"}, {{2, 21, 2}, "2.21.2"}, {{3, 0, 0}, "3.0.0"}};
    if (ma == 1 && mi == 18 && pa == 0) return desktop_family ? "1.18.0-desktop" : "1.18.0-os";
    auto it = t.find({ma, mi, pa});
    return it == t.end() ? "" : it->second;
}

struct Case
{
    eng::engine_schema schema;
    int mode;  // 0 = create_database on disk, 1 = temporary (World), 2 = public create_temporary_database, 3 = create_or_load_database on an empty directory
};

int run(const Options& o)
{
    Evidence ev(o, "model_checking");
    Reporter rep(o.property, build_variant());
    Agg total;
    const double t0 = now_s();
    auto refs = find_refs();
    std::vector<Case> cases;
    for (auto s : all_schemas())
        for (int mode = 0; mode < 4; ++mode) cases.push_back({s, mode});
    if (!o.only.empty())
    {
        // "<schema>|<mode>"
        cases.clear();
        auto parts = split(o.only, '|');
        cases.push_back({*schema_by_name(parts[0]), atoi(parts[1].c_str())});
    }
    auto res = run_pool(
        cases.size(), o.jobs, 300,
        [&](size_t ci, Emitter& em) {
            Agg a;
            const Case& c = cases[ci];
            const std::string sn = schema_name(c.schema);
            const std::string cid = sn + "|" + std::to_string(c.mode);
            const bool v2 = is_v2(c.schema);
            const char* how = c.mode == 0 ? "create_database" : c.mode == 3 ? "create_or_load_database (nothing there yet)" : "create_temporary_database";
            auto viol = [&](const std::string& inv, const std::string& what) { a.violation(sn + "|" + inv, "[" + sn + ", " + how + "] " + what, cid); };
            std::string dir = scratch_dir() + "/c12." + std::to_string(getpid()) + "." + std::to_string(ci);
            std::map<std::string, std::map<std::string, std::string>> created;  // "m" / "p" -> fingerprint
            {
                std::unique_ptr<World> w;
                if (c.mode == 0) w.reset(new World(c.schema, dir, 0));
                else if (c.mode == 1) w.reset(new World(c.schema));
                else
                {
                    // the remaining public creation paths: the World adopts the database they return
                    size_t before = seam::opened_handles().size();
                    bool created_flag = false;
                    eng::engine_schema reported = eng::engine_schema::schema_3_0_0;
                    dj::database d = c.mode == 2 ? eng::create_temporary_database(c.schema) : eng::create_or_load_database(dir, c.schema, created_flag, reported);
                    if (seam::opened_handles().size() <= before) throw std::runtime_error("C12: SQLite handle not captured");
                    try { w.reset(new World(c.schema, d, seam::opened_handles().back())); }
                    catch (const std::exception& e)
                    {
                        // the harness cannot even read the Information table where a library of this generation keeps it: what was created is not
                        // a library of the requested version (e.g. the other generation's layout)
                        viol("created_wrong_layout", std::string("the created library does not have the layout of the requested version: ") + e.what() + "; version_name() = " + d.version_name());
                        a.count("evaluations");
                        a.flush(em);
                        if (system(("rm -rf '" + dir + "'").c_str())) {}
                        return;
                    }
                    if (c.mode == 3)
                    {
                        if (!created_flag) viol("create_or_load_not_created", "create_or_load_database on an empty directory reports created = false");
                        // the loaded_schema out-parameter is documented as "not defined if a new database was created": no demand on it
                    }
                }
                try { w->db.verify(); } catch (const std::exception& e) { viol("created_fails_verify", std::string("verify() rejects the created library: ") + e.what()); }
                created["m"] = sfp::fingerprint(w->handle, v2 ? "main" : "music");
                if (!v2) created["p"] = sfp::fingerprint(w->handle, "perfdata");
                // version numbers carried by every Information table
                int want_ma = v2 ? 2 : 1;
                (void)want_ma;
                for (auto dbn : v2 ? std::vector<std::string>{"main"} : std::vector<std::string>{"music", "perfdata"})
                {
                    auto r = w->query("SELECT schemaVersionMajor, schemaVersionMinor, schemaVersionPatch FROM " + dbn + ".Information");
                    if (r.size() != 1) { viol("information_rows", dbn + ".Information has " + std::to_string(r.size()) + " rows"); continue; }
                    std::string got = version_to_schema(atoi(r[0][0].c_str()), atoi(r[0][1].c_str()), atoi(r[0][2].c_str()), sn.find("desktop") != std::string::npos);
                    if (got != sn) viol("version_numbers:" + dbn, dbn + ".Information carries version " + r[0][0] + "." + r[0][1] + "." + r[0][2] + " in a library created as " + sn);
                }
                if (w->db.version_name() != eng::to_string(c.schema)) viol("version_name", "version_name() = " + w->db.version_name());
                a.count("evaluations");
            }
            if (c.mode == 0 || c.mode == 3)
            {
                try
                {
                    World wl(c.schema, dir, 1);
                    if (wl.loaded_schema != c.schema) viol("reload_version", "reloading the created library reports " + (wl.loaded_schema == eng::engine_schema::schema_3_0_0 ? std::string("3.0.0 / not set") : schema_name(wl.loaded_schema)));
                    if (wl.db.version_name() != eng::to_string(c.schema)) viol("reload_version_name", "reloaded library's version_name() = " + wl.db.version_name());
                    wl.db.verify();
                }
                catch (const std::exception& e) { viol("reload_fails", std::string("the created library cannot be reloaded / verified: ") + e.what()); }
                if (system(("rm -rf '" + dir + "'").c_str())) {}
            }
            // against every reference dump of this version. Dumps of one version occasionally disagree among themselves (Engine Prime 1.5.1 vs
            // 1.6.x name one p.db trigger differently): the created library must match at least one dump of its version completely, and every
            // object on which all dumps of the version agree must match that common definition.
            int matched = 0, full_matches = 0;
            std::string closest_diff;
            size_t closest_len = (size_t)-1;
            std::map<std::string, std::map<std::string, int>> votes_m, votes_p;  // object -> fingerprint -> number of dumps
            for (auto& r : refs)
            {
                if (r.v2 != v2) continue;
                Hydrated hm;
                hydrate(hm, r.m_sql);
                auto info = sfp::q(hm.db, "SELECT schemaVersionMajor, schemaVersionMinor, schemaVersionPatch FROM Information");
                if (info.size() != 1) continue;
                bool desk = r.name.rfind("ep/", 0) == 0 || r.name.rfind("desktop/", 0) == 0;
                if (version_to_schema(atoi(info[0][0].c_str()), atoi(info[0][1].c_str()), atoi(info[0][2].c_str()), desk) != sn) continue;
                ++matched;
                a.count("comparisons");
                auto ref_m = sfp::fingerprint(hm.db, "main");
                for (auto& kv : ref_m) votes_m[kv.first][kv.second]++;
                std::string d = sfp::diff(created["m"], ref_m, "created", "reference");
                if (!d.empty()) d = "m.db vs " + r.name + ": " + d;
                if (!v2)
                {
                    Hydrated hp;
                    hydrate(hp, r.p_sql);
                    auto ref_p = sfp::fingerprint(hp.db, "main");
                    for (auto& kv : ref_p) votes_p[kv.first][kv.second]++;
                    a.count("comparisons");
                    std::string dp = sfp::diff(created["p"], ref_p, "created", "reference");
                    if (!dp.empty()) d += "p.db vs " + r.name + ": " + dp;
                    auto pinfo = sfp::q(hp.db, "SELECT schemaVersionMajor, schemaVersionMinor, schemaVersionPatch FROM Information");
                    if (pinfo.size() == 1 && (pinfo[0][0] != info[0][0] || pinfo[0][1] != info[0][1] || pinfo[0][2] != info[0][2])) a.count("reference_dumps_with_inconsistent_p_version");
                }
                if (d.empty()) { ++full_matches; a.count("validated"); }
                else
                {
                    a.count("reference_dumps_not_matched");
                    if (d.size() < closest_len) { closest_len = d.size(); closest_diff = d; }
                }
                a.seen("pairs", cid + r.name);
            }
            if (matched && !full_matches) viol("differs_from_every_reference", "matches none of the " + std::to_string(matched) + " reference dumps of this version; closest: " + trunc(closest_diff, 900));
            // objects on which every dump of this version agrees
            for (int which = 0; which < 2; ++which)
            {
                auto& votes = which ? votes_p : votes_m;
                auto& mine = created[which ? "p" : "m"];
                for (auto& kv : votes)
                {
                    if (kv.second.size() != 1 || kv.second.begin()->second != matched) continue;
                    auto it = mine.find(kv.first);
                    if (it == mine.end()) viol(std::string("missing_object:") + (which ? "p.db" : "m.db"), kv.first + " is present in every reference dump of this version but not in the created library");
                    else if (it->second != kv.second.begin()->first) viol(std::string("object_differs:") + (which ? "p.db" : "m.db"), kv.first + " differs from the definition all " + std::to_string(matched) + " reference dumps share");
                }
                for (auto& kv : mine)
                    if (matched && !votes.count(kv.first)) viol(std::string("extra_object:") + (which ? "p.db" : "m.db"), kv.first + " exists in the created library but in no reference dump of this version");
            }
            a.count(matched ? "versions_with_reference" : "versions_without_reference");
            a.seen("created", sfp::flat(created["m"]) + sfp::flat(created["p"]));
            Json s = Json::object();
            s["case"] = cid;
            s["reference_dumps_of_this_version"] = matched;
            s["objects_in_m_db"] = (long long)created["m"].size();
            a.sample(s);
            a.flush(em);
        });
    for (size_t i = 0; i < res.size(); ++i)
    {
        for (auto& l : res[i].lines) total.merge_line(l, rep);
        if (res[i].status != CaseResult::Ok)
            rep.add(Violation{schema_name(cases[i].schema) + "|crash:" + res[i].crash_kind, "creating / comparing died (" + res[i].crash_kind + ") in " + res[i].crash_frame, schema_name(cases[i].schema) + "|" + std::to_string(cases[i].mode), Json(res[i].crash_head)});
    }
    // the two creation modes of one version must agree with each other (this is all that can be said for 1.6.0, which has no dump)
    rep.set_counts(total.vcount);
    auto& c = ev.cov();
    c["evaluations"] = total.get("evaluations") + total.get("comparisons");
    c["distinct_nontrivial"] = total.ndistinct("pairs");
    c["states"] = (long long)cases.size();
    c["transitions"] = total.get("comparisons");
    c["traces_validated_against_impl"] = total.get("validated");
    c["rule"] =
        "The whole configuration space: each of the 18 supported versions created through every public creation path (create_database on disk, v2::engine_library::create_temporary / v1 temporary, create_temporary_database, create_or_load_database on an empty directory, which must also report created = true; its loaded_schema out-parameter is documented as undefined in that case and is not looked at), compared with EVERY reference dump (" + std::to_string(refs.size()) +
        " directories) whose own Information row carries that version (1.18.0: ep/ dumps are the desktop variant, sc5000/ the OS variant). Fingerprint per object: tables by PRAGMA table_xinfo, "
        "foreign_key_list, index_list + index_xinfo; views, triggers and explicit indices by their sqlite_master text, lower-cased, whitespace collapsed, [x] / \"x\" / `x` quoting removed; object sets "
        "must match in both directions. Also: every Information table (m.db and p.db) carries the requested version triple, verify() passes, version_name() matches, and reloading the on-disk "
        "library reports the requested version. Distinct non-trivial = (version, mode, reference dump) pairs compared.";
    c["exhaustive"] = true;
    Json b = Json::object();
    b["reference_directories"] = (long long)refs.size();
    b["versions_without_reference_dump"] = total.get("versions_without_reference") / 2;
    c["bounds"] = b;
    c["counters"] = total.counters_json();
    for (auto& s : total.samples) ev.sample(s);
    ev.assumption("1.6.0 has no reference dump and is only checked for version numbers, verify() and reload");
    ev.assumption("default rows (AlbumArt, Information, lists) are content, not schema, and are not compared");
    for (auto& h : total.harness_errors) fprintf(stderr, "harness error: %s\n", h.c_str());
    int bad = rep.finish();
    if (!total.harness_errors.empty()) bad = -1;
    ev.write(bad < 0 ? 0 : bad, rep.known_hits());
    printf("C12 %s: created=%zu comparisons=%lld validated=%lld refs=%zu wall=%.1fs\n", o.tier.c_str(), cases.size(), total.get("comparisons"), total.get("validated"), refs.size(), now_s() - t0);
    return bad;
}
Registrar reg({"C12", "san", "san", run});
}  // namespace
