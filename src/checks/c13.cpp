// C13 — schema and layout detection is exact. Shape (I): every version triple of a box around the supported values (plus
// -1, 2^31, 2^32+1 and NULL in each coordinate) is written by raw SQL into the Information row of a real library of each
// layout / variant and loaded; the answer is compared with an independent decision table. Plus all presence combinations
// of m.db and Database2/m.db, a missing directory, a missing and an empty Information table.
#include <sys/stat.h>
#include <unistd.h>
#include <cxxabi.h>
#include <climits>

#include "common/agg.hpp"
#include "model/world.hpp"
#include <djinterop/engine/v2/engine_library.hpp>

namespace
{
using namespace vx;
using namespace wm;

const std::map<std::tuple<long long, long long, long long>, std::string>& table()
{
    static const std::map<std::tuple<long long, long long, long long>, std::string> t = {
        {{1, 6, 0}, "1.6.0"}, {{1, 7, 1}, "1.7.1"}, {{1, 9, 1}, "1.9.1"}, {{1, 11, 1}, "1.11.1"}, {{1, 13, 0}, "1.13.0"}, {{1, 13, 1}, "1.13.1"}, {{1, 13, 2}, "1.13.2"}, {{1, 15, 0}, "1.15.0"},
        {{1, 17, 0}, "1.17.0"}, {{1, 18, 0}, "1.18.0"}, {{2, 18, 0}, "2.18.0"}, {{2, 20, 1}, "2.20.1"}, {{2, 20, 2}, "2.20.2"}, {{2, 20, 3}, "2.20.3"}, {{2, 21, 0}, "2.21.0"}, {{2, 21, 1}, "2.21.1"},
        {{2, 21, 2}, "2.21.2"}, {{3, 0, 0}, "3.0.0"}};
    return t;
}
constexpr long long NULLV = LLONG_MIN;  // stands for SQL NULL
std::string val_sql(long long v) { return v == NULLV ? "NULL" : std::to_string(v); }

struct Base
{
    std::string name;  // "legacy-os", "legacy-desktop", "database2"
    eng::engine_schema create_as;
    bool database2;
    bool desktop;
};
const std::vector<Base> BASES = {{"legacy-os", eng::engine_schema::schema_1_18_0_os, false, false},
                                 {"legacy-desktop", eng::engine_schema::schema_1_18_0_desktop, false, true},
                                 {"database2", eng::engine_schema::schema_2_21_2, true, false}};

void raw_exec(const std::string& file, const std::string& sql)
{
    sqlite3* db = nullptr;
    if (sqlite3_open(file.c_str(), &db) != SQLITE_OK) throw std::runtime_error("cannot open " + file);
    char* err = nullptr;
    int rc = sqlite3_exec(db, sql.c_str(), nullptr, nullptr, &err);
    std::string m = err ? err : "";
    sqlite3_free(err);
    sqlite3_close(db);
    if (rc != SQLITE_OK) throw std::runtime_error("raw SQL failed: " + sql + ": " + m);
}

struct LoadResult
{
    bool ok = false;
    std::string ex_type, what, loaded, version_name;
};
LoadResult try_load(const std::string& dir)
{
    LoadResult r;
    eng::engine_schema ls = eng::engine_schema::schema_3_0_0;
    try
    {
        auto db = eng::load_database(dir, ls);
        r.ok = true;
        r.loaded = schema_name(ls);
        r.version_name = db.version_name();
    }
    catch (const std::exception& e)
    {
        int st = 0;
        char* d = abi::__cxa_demangle(typeid(e).name(), nullptr, nullptr, &st);
        r.ex_type = d ? d : typeid(e).name();
        free(d);
        r.what = e.what();
    }
    return r;
}

// the second public loader: the schema-2.x library object, which opens <dir>/Database2/m.db directly (no layout probe first)
LoadResult try_load_v2(const std::string& dir)
{
    LoadResult r;
    try
    {
        auto lib = eng::v2::engine_library::load(dir);
        r.ok = true;
        r.loaded = schema_name(lib.schema());
        r.version_name = lib.database().version_name();
    }
    catch (const std::exception& e)
    {
        int st = 0;
        char* d = abi::__cxa_demangle(typeid(e).name(), nullptr, nullptr, &st);
        r.ex_type = d ? d : typeid(e).name();
        free(d);
        r.what = e.what();
    }
    return r;
}
std::string listing(const std::string& dir)
{
    std::string out;
    FILE* p = popen(("cd '" + dir + "' 2>/dev/null && find . | sort").c_str(), "r");
    if (!p) return "?";
    char buf[512];
    while (fgets(buf, sizeof buf, p)) out += buf;
    pclose(p);
    return out;
}

int run(const Options& o)
{
    Evidence ev(o, "model_checking");
    Reporter rep(o.property, build_variant());
    Agg total;
    const double t0 = now_s();
    std::vector<long long> majors = {0, 1, 2, 3, 4, -1, 1ll << 31, (1ll << 32) + 1, NULLV};
    std::vector<long long> minors, patches = {0, 1, 2, 3, 4, -1, 1ll << 31, (1ll << 32) + 1, NULLV};
    for (int i = 0; i <= 23; ++i) minors.push_back(i);
    for (long long x : {-1ll, 1ll << 31, (1ll << 32) + 18, NULLV}) minors.push_back(x);
    struct Task { int base; long long major; };
    std::vector<Task> tasks;
    for (int b = 0; b < (int)BASES.size(); ++b)
        for (auto ma : majors) tasks.push_back({b, ma});
    tasks.push_back({-1, 0});  // layout / presence combinations
    auto res = run_pool(
        tasks.size(), o.jobs, 600,
        [&](size_t ti, Emitter& em) {
            Agg a;
            const Task& t = tasks[ti];
            std::string dir = scratch_dir() + "/c13." + std::to_string(getpid()) + "." + std::to_string(ti);
            if (t.base < 0)
            {
                auto expect_throw = [&](const std::string& what, const std::string& d, const std::string& want_type) {
                    a.count("evaluations");
                    auto r = try_load(d);
                    a.seen("cases", what);
                    if (r.ok) a.violation("layout|" + what + "|accepted", "load_database succeeded on " + what + " (reported " + r.loaded + ")", "layout|" + what);
                    else if (!want_type.empty() && r.ex_type.find(want_type) == std::string::npos) a.violation("layout|" + what + "|wrong_exception", what + ": threw " + r.ex_type + " (" + r.what + ") instead of " + want_type, "layout|" + what);
                    else a.count("validated");
                };
                // the same for engine_library::load / exists; a refused load must also leave the directory as it found it (a loader
                // that lets SQLite create Database2/m.db turns the next load of a legacy library there into "both layouts")
                auto expect_throw_v2 = [&](const std::string& what, const std::string& d) {
                    a.count("evaluations");
                    const std::string before = listing(d);
                    auto r = try_load_v2(d);
                    a.seen("cases", "v2 " + what);
                    bool ex = true;
                    try { ex = eng::v2::engine_library::exists(d); } catch (const std::exception&) { ex = false; }
                    if (r.ok) a.violation("layout|v2 loader|" + what + "|accepted", "engine_library::load succeeded on " + what + " (reported " + r.loaded + ")", "layout|v2 " + what);
                    else if (r.ex_type.find("database_not_found") == std::string::npos) a.violation("layout|v2 loader|" + what + "|wrong_exception", "engine_library::load on " + what + ": threw " + r.ex_type + " (" + r.what + ") instead of database_not_found", "layout|v2 " + what);
                    else if (listing(d) != before) a.violation("layout|v2 loader|" + what + "|directory_changed", "engine_library::load on " + what + " was refused but changed the directory: before {" + before + "} after {" + listing(d) + "}", "layout|v2 " + what);
                    else if (ex) a.violation("layout|v2 loader|" + what + "|exists_true", "engine_library::exists() is true for " + what, "layout|v2 " + what);
                    else a.count("validated");
                };
                expect_throw("missing directory", dir + ".nope", "database_not_found");
                expect_throw_v2("missing directory", dir + ".nope");
                mkdir(dir.c_str(), 0700);
                expect_throw("empty directory", dir, "database_not_found");
                expect_throw_v2("empty directory", dir);
                { World w(eng::engine_schema::schema_1_18_0_os, dir, 0); }
                {
                    a.count("evaluations");
                    auto r = try_load(dir);
                    if (!r.ok || r.loaded != "1.18.0-os") a.violation("layout|legacy only|misdetected", "legacy-only directory: " + (r.ok ? r.loaded : r.ex_type), "layout|legacy only");
                    else a.count("validated");
                }
                expect_throw_v2("legacy only", dir);
                {
                    // ... and the legacy library still loads afterwards
                    a.count("evaluations");
                    auto r = try_load(dir);
                    if (!r.ok || r.loaded != "1.18.0-os") a.violation("layout|legacy only|misdetected_after_v2_loader", "legacy-only directory after a refused engine_library::load: " + (r.ok ? r.loaded : r.ex_type + ": " + r.what), "layout|legacy only after v2");
                    else a.count("validated");
                }
                std::string d2 = dir + ".b";
                { World w(eng::engine_schema::schema_2_21_2, d2, 0); }
                {
                    a.count("evaluations");
                    auto r = try_load(d2);
                    if (!r.ok || r.loaded != "2.21.2") a.violation("layout|database2 only|misdetected", "Database2-only directory: " + (r.ok ? r.loaded : r.ex_type), "layout|database2 only");
                    else a.count("validated");
                }
                // both layouts present (either creation order)
                if (system(("mkdir -p '" + dir + "/Database2' && cp '" + d2 + "/Database2/m.db' '" + dir + "/Database2/m.db'").c_str())) {}
                expect_throw("both m.db and Database2/m.db", dir, "database_not_found");
                {
                    a.count("evaluations");
                    bool ex = true;
                    try { ex = eng::database_exists(dir); } catch (const std::exception&) { ex = false; }
                    if (ex) a.violation("layout|both layouts|database_exists_true", "database_exists() is true for a directory holding both layouts", "layout|both");
                    else a.count("validated");
                }
                // only p.db / only Database2 directory without m.db
                std::string d3 = dir + ".c";
                { World w(eng::engine_schema::schema_1_18_0_os, d3, 0); }
                unlink((d3 + "/m.db").c_str());
                expect_throw("p.db without m.db", d3, "database_not_found");
                std::string d4 = dir + ".d";
                mkdir(d4.c_str(), 0700);
                mkdir((d4 + "/Database2").c_str(), 0700);
                expect_throw("empty Database2 directory", d4, "database_not_found");
                expect_throw_v2("empty Database2 directory", d4);
                expect_throw("empty Database2 directory (again)", d4, "database_not_found");
                {
                    // a legacy library next to an empty Database2 directory is a legacy library, before and after the 2.x loader looked
                    std::string d7 = dir + ".g";
                    { World w(eng::engine_schema::schema_1_17_0, d7, 0); }
                    mkdir((d7 + "/Database2").c_str(), 0700);
                    for (int round = 0; round < 2; ++round)
                    {
                        a.count("evaluations");
                        auto r = try_load(d7);
                        if (!r.ok || r.loaded != "1.17.0") a.violation("layout|legacy + empty Database2|misdetected", std::string("legacy library next to an empty Database2 directory") + (round ? " after a refused engine_library::load: " : ": ") + (r.ok ? r.loaded : r.ex_type + ": " + r.what), "layout|legacy + empty Database2");
                        else a.count("validated");
                        if (round == 0) expect_throw_v2("legacy + empty Database2 directory", d7);
                    }
                    if (system(("rm -rf '" + d7 + "'").c_str())) {}
                }
                // Information table missing / empty
                std::string d5 = dir + ".e";
                { World w(eng::engine_schema::schema_2_21_2, d5, 0); }
                raw_exec(d5 + "/Database2/m.db", "DELETE FROM Information");
                expect_throw("empty Information table (Database2)", d5, "");
                raw_exec(d5 + "/Database2/m.db", "DROP TABLE Information");
                expect_throw("missing Information table (Database2)", d5, "");
                std::string d6 = dir + ".f";
                { World w(eng::engine_schema::schema_1_18_0_os, d6, 0); }
                raw_exec(d6 + "/m.db", "DELETE FROM Information");
                expect_throw("empty Information table (legacy)", d6, "");
                raw_exec(d6 + "/m.db", "DROP TABLE Information");
                expect_throw("missing Information table (legacy)", d6, "");
                if (system(("rm -rf '" + dir + "' '" + dir + ".b' '" + dir + ".c' '" + dir + ".d' '" + dir + ".e' '" + dir + ".f'").c_str())) {}
                a.flush(em);
                return;
            }
            const Base& b = BASES[(size_t)t.base];
            { World w(b.create_as, dir, 0); }
            const std::string file = dir + (b.database2 ? "/Database2/m.db" : "/m.db");
            for (auto mi : minors)
                for (auto pa : patches)
                {
                    raw_exec(file, "UPDATE Information SET schemaVersionMajor = " + val_sql(t.major) + ", schemaVersionMinor = " + val_sql(mi) + ", schemaVersionPatch = " + val_sql(pa));
                    const std::string cid = b.name + "|" + val_sql(t.major) + "." + val_sql(mi) + "." + val_sql(pa);
                    a.count("evaluations");
                    auto r = try_load(dir);
                    // expected
                    std::string want;  // schema name, "" = must be rejected with unsupported_database
                    auto it = (t.major == NULLV || mi == NULLV || pa == NULLV) ? table().end() : table().find({t.major, mi, pa});
                    bool cross = false, three = false;
                    if (it != table().end())
                    {
                        want = it->second;
                        if (want == "1.18.0") want = b.desktop ? "1.18.0-desktop" : "1.18.0-os";
                        three = want == "3.0.0";
                        bool want_v2 = want[0] != '1';
                        cross = want_v2 != b.database2;
                        a.seen("supported", cid);
                    }
                    a.seen("cases", cid);
                    auto viol = [&](const std::string& inv, const std::string& what) { a.violation(b.name + "|" + inv, "[" + b.name + "] stored version " + val_sql(t.major) + "." + val_sql(mi) + "." + val_sql(pa) + ": " + what, cid); };
                    if (cross) a.count(std::string("cross_layout.") + (r.ok ? "loaded" : "threw." + r.ex_type));
                    if (b.database2)
                    {
                        // engine_library::load decides from the stored triple alone (it never looks at the layout): every supported
                        // triple, of either generation, maps to its schema; (3,0,0) as above; everything else is unsupported_database
                        a.count("evaluations");
                        auto r2 = try_load_v2(dir);
                        if (cross) a.count(std::string("cross_layout.v2_loader.") + (r2.ok ? "loaded" : "threw." + r2.ex_type));
                        if (r2.ok)
                        {
                            if (want.empty()) viol("v2_loader|unsupported_version_accepted", "engine_library::load reports " + r2.loaded + " instead of rejecting with unsupported_database");
                            else if (r2.loaded != want) viol("v2_loader|misidentified", "engine_library::load identifies it as " + r2.loaded + ", expected " + want);
                            else a.count("validated");
                        }
                        else
                        {
                            if (!want.empty() && !three) viol("v2_loader|supported_version_rejected", "engine_library::load rejected it with " + r2.ex_type + ": " + r2.what);
                            else if (r2.ex_type.find("unsupported_database") == std::string::npos) viol("v2_loader|wrong_exception", "engine_library::load rejected it with " + r2.ex_type + " (" + r2.what + ") instead of unsupported_database");
                            else a.count("validated");
                        }
                    }
                    if (r.ok)
                    {
                        if (want.empty()) viol("unsupported_version_accepted", "loaded as " + r.loaded + " (version_name " + r.version_name + ") instead of being rejected with unsupported_database");
                        else if (r.loaded != want) viol("misidentified", "identified as " + r.loaded + ", expected " + want);
                        else if (r.version_name != eng::to_string(*schema_by_name(want))) viol("version_name", "version_name() = " + r.version_name + " for " + want);
                        else a.count("validated");
                    }
                    else
                    {
                        if (!want.empty() && !cross && !three) viol("supported_version_rejected", "rejected with " + r.ex_type + ": " + r.what);
                        else if (want.empty() && r.ex_type.find("unsupported_database") == std::string::npos) viol("wrong_exception", "rejected with " + r.ex_type + " (" + r.what + ") instead of unsupported_database");
                        else if (three && r.ex_type.find("unsupported_database") == std::string::npos && !cross) viol("wrong_exception_for_3_0_0", "rejected with " + r.ex_type);
                        else a.count("validated");
                    }
                }
            if (system(("rm -rf '" + dir + "'").c_str())) {}
            a.flush(em);
        });
    for (size_t i = 0; i < res.size(); ++i)
    {
        for (auto& l : res[i].lines) total.merge_line(l, rep);
        if (res[i].status != CaseResult::Ok) rep.add(Violation{"crash:" + res[i].crash_kind, "task died (" + res[i].crash_kind + ") in " + res[i].crash_frame, "task" + std::to_string(i), Json(res[i].crash_head)});
    }
    rep.set_counts(total.vcount);
    auto& c = ev.cov();
    c["evaluations"] = total.get("evaluations");
    c["distinct_nontrivial"] = total.ndistinct("supported");
    c["states"] = total.ndistinct("cases");
    c["transitions"] = total.get("evaluations");
    c["traces_validated_against_impl"] = total.get("validated");
    c["rule"] =
        "Version triples (major, minor, patch) over {0..4, -1, 2^31, 2^32+1, NULL} x {0..23, -1, 2^31, 2^32+18, NULL} x {0..4, -1, 2^31, 2^32+1, NULL}, each written by raw SQL into the Information row of "
        "three real on-disk libraries (legacy layout with the 1.18.0 OS column types, legacy layout with the desktop column types, Database2 layout) and loaded with load_database. Independent "
        "decision table: the 18 supported triples map to their schema (1.18.0 by variant); (3,0,0) may map to 3.0.0 or be rejected with unsupported_database; a supported triple in the other "
        "layout may throw any std::exception or be reported truthfully; every other triple must be rejected with unsupported_database; a successful load must report exactly the stored version "
        "(loaded_schema and version_name). Layout cases: missing directory, empty directory, legacy only, Database2 only, both layouts, p.db without m.db, empty Database2 directory "
        "(database_not_found), empty and missing Information table (any std::exception). The second public loader, v2::engine_library::load (which opens Database2/m.db without probing the layout), is "
        "given every triple on the Database2 library and must map each supported triple of either generation to its schema and reject the rest with unsupported_database; on a missing / empty / "
        "legacy-only directory, an empty Database2 directory and a legacy library next to an empty Database2 directory it must throw database_not_found, engine_library::exists must be false, the "
        "directory listing must be unchanged by the refused load and load_database must give the same answer afterwards as before. Non-trivial = triples that the table maps to a schema.";
    c["exhaustive"] = true;
    c["counters"] = total.counters_json();
    ev.sample(Json("legacy-os|1.18.1  (must be rejected with unsupported_database)"));
    ev.sample(Json("database2|2.20.3  (must load as 2.20.3)"));
    ev.sample(Json("legacy-desktop|2.21.2  (cross-layout: any std::exception or truthful 2.21.2)"));
    ev.assumption("triples outside the box behave like its border by the structure of the nested switch; that is an argument, not an enumeration");
    for (auto& h : total.harness_errors) fprintf(stderr, "harness error: %s\n", h.c_str());
    int bad = rep.finish();
    if (!total.harness_errors.empty()) bad = -1;
    ev.write(bad < 0 ? 0 : bad, rep.known_hits());
    printf("C13 %s: loads=%lld validated=%lld supported_cases=%lld wall=%.1fs\n", o.tier.c_str(), total.get("evaluations"), total.get("validated"), total.ndistinct("supported"), now_s() - t0);
    return bad;
}
Registrar reg({"C13", "san", "san", run});
}  // namespace
