// C15 — no public call has undefined behaviour, whatever its arguments. Shape (S), ASan + UBSan + libstdc++ assertions:
// in every distinct state of the composite exploration (stale handles of removed tracks and crates retained) every public
// operation of database, crate and track is called with arguments in and just outside its nominal range. Each call is a
// sub-step of a forked worker: a sanitizer report, assertion, signal, hang or non-std exception is attributed to that call.
#include <climits>

#include "model/composite.hpp"

namespace
{
using namespace vx;
using namespace wm;
using namespace std::chrono;

struct Probe
{
    std::string name;                 // stable name (used in the violation key)
    std::function<void(World&)> fn;   // may throw std::exception
};

std::string label_of_len(size_t n, char c = 'x') { return std::string(n, c); }

dj::track_snapshot snap_variant(int v, bool v2, int n)
{
    auto s = example_snapshot(2, 900 + n);
    switch (v)
    {
        case 0: s = example_snapshot(0, 900 + n); break;                                              // minimal: no sample count / rate
        case 1: s.sample_rate.reset(); s.waveform.assign(7, dj::waveform_entry{}); break;             // waveform without sample rate
        case 2: s.sample_count.reset(); s.waveform.assign(1025, dj::waveform_entry{}); break;         // waveform without sample count
        case 3: s.sample_rate.reset(); s.sample_count.reset(); s.waveform.assign(3, dj::waveform_entry{}); s.beatgrid = {{0, 1.0}, {4, 5.0}}; break;
        case 4: s.hot_cues.assign(12, dj::hot_cue{"c", 1.0, {}}); break;                              // more cue slots than the format allows
        case 5: s.loops.assign(9, dj::loop{"l", 1.0, 2.0, {}}); break;
        case 6: s.hot_cues.assign(8, std::nullopt); s.hot_cues[7] = dj::hot_cue{label_of_len(256), 5.0, {}}; break;
        case 7: s.loops.assign(8, std::nullopt); s.loops[0] = dj::loop{label_of_len(300), 5.0, 6.0, {}}; break;
        case 8: s.beatgrid = {{0, 100.0}}; break;                                                     // single marker
        case 9: s.beatgrid = {{4, 100.0}, {0, 50.0}}; break;                                          // unsorted
        case 10: s.relative_path.reset(); break;                                                      // no path
        case 11: s.relative_path = std::string("noext"); break;
        case 12: s.bpm = 1e15; s.average_loudness = -1.0; s.main_cue = -1.0; s.sample_rate = 1e15; s.sample_count = ULLONG_MAX; break;
        case 13: s.duration = milliseconds{-5000}; s.last_played_at = system_clock::time_point{seconds{-100}}; s.rating = INT_MIN; s.year = INT_MIN; s.bitrate = INT_MAX; s.track_number = INT_MIN; break;
        case 14: s.title = std::string("a\0b", 3); s.artist = label_of_len(5000); s.album = std::string(""); break;
        case 15: s.hot_cues.assign(8, std::nullopt); s.hot_cues[0] = dj::hot_cue{"", -1.0, {}}; s.loops.assign(8, std::nullopt); s.loops[7] = dj::loop{"", -1.0, -1.0, {}}; break;
        case 16: s.waveform.assign(100000, dj::waveform_entry{}); break;
        default: break;
    }
    if (v == 0 || v >= 4)
    {
        if (s.sample_count && s.sample_rate && s.waveform.empty() && v != 16)
        {
            auto ext = v2 ? eng::calculate_overview_waveform_extents(*s.sample_count, *s.sample_rate) : eng::calculate_high_resolution_waveform_extents(*s.sample_count, *s.sample_rate);
            if (ext.size < 200000) s.waveform.assign(ext.size, dj::waveform_entry{});
        }
    }
    return s;
}
constexpr int NUM_SNAP_VARIANTS = 17;

std::vector<Probe> build_probes(World& w)
{
    std::vector<Probe> P;
    auto add = [&](const std::string& n, std::function<void(World&)> f) { P.push_back({n, std::move(f)}); };
    const int nt = (int)w.tracks.size(), nc = (int)w.crates.size();
    // ------------------------------------------------------------------ database
    for (int64_t id : {(int64_t)-1, (int64_t)0, (int64_t)987654, INT64_MAX, INT64_MIN})
    {
        add("database::track_by_id(odd id)", [id](World& w) { auto t = w.db.track_by_id(id); if (t) (void)t->title(); });
        add("database::crate_by_id(odd id)", [id](World& w) { auto c = w.db.crate_by_id(id); if (c) (void)c->name(); });
    }
    for (auto& name : std::vector<std::string>{"", "x;y", label_of_len(5000), std::string("a\0b", 3), "\xff\xfe"})
    {
        add("database::crates_by_name(odd)", [name](World& w) { (void)w.db.crates_by_name(name); });
        add("database::root_crate_by_name(odd)", [name](World& w) { (void)w.db.root_crate_by_name(name); });
        add("database::tracks_by_relative_path(odd)", [name](World& w) { (void)w.db.tracks_by_relative_path(name); });
        add("database::create_root_crate(odd name)", [name](World& w) { (void)w.db.create_root_crate(name); });
    }
    add("database::listings", [](World& w) { (void)w.db.crates(); (void)w.db.root_crates(); (void)w.db.tracks(); (void)w.db.uuid(); (void)w.db.version_name(); (void)w.db.directory(); w.db.verify(); });
    add("database::copy_assign", [](World& w) { dj::database a = w.db; dj::database b = a; a = b; (void)a.uuid(); });
    for (int v = 0; v < NUM_SNAP_VARIANTS; ++v)
        add("database::create_track(variant " + std::to_string(v) + ")", [v](World& w) { auto t = w.db.create_track(snap_variant(v, w.v2, 0)); (void)t.snapshot(); });
    for (int c = 0; c < nc; ++c)
    {
        add("database::create_root_crate_after(any crate)", [c](World& w) { (void)w.db.create_root_crate_after("after", w.crates[c]); });
        add("database::remove_crate(any handle)", [c](World& w) { w.db.remove_crate(w.crates[c]); (void)w.crates[c].is_valid(); (void)w.crates[c].id(); });
    }
    for (int t = 0; t < nt; ++t) add("database::remove_track(any handle)", [t](World& w) { w.db.remove_track(w.tracks[t]); (void)w.tracks[t].is_valid(); (void)w.tracks[t].id(); });
    // ------------------------------------------------------------------ crate (live and stale handles alike)
    for (int c = 0; c < nc; ++c)
    {
        add("crate::getters", [c](World& w) {
            auto& h = w.crates[c];
            (void)h.id(); (void)h.is_valid();
            auto g = [](auto&& f) { try { f(); } catch (const std::exception&) {} };
            g([&] { (void)h.name(); }); g([&] { (void)h.parent(); }); g([&] { (void)h.children(); }); g([&] { (void)h.descendants(); }); g([&] { (void)h.tracks(); });
            g([&] { (void)h.db().uuid(); }); g([&] { (void)h.sub_crate_by_name(""); }); g([&] { (void)h.sub_crate_by_name("k0"); });
        });
        add("crate::copy_assign_destroy", [c](World& w) { dj::crate a = w.crates[c]; dj::crate b = a; a = b; (void)a.id(); (void)b.is_valid(); });
        for (auto& name : std::vector<std::string>{"", "x;y", label_of_len(5000), std::string("a\0b", 3), "ok name"})
        {
            add("crate::set_name(odd)", [c, name](World& w) { w.crates[c].set_name(name); });
            add("crate::create_sub_crate(odd name)", [c, name](World& w) { (void)w.crates[c].create_sub_crate(name); });
        }
        add("crate::set_parent(none)", [c](World& w) { w.crates[c].set_parent(std::nullopt); });
        for (int p = 0; p < nc; ++p)
        {
            add("crate::set_parent(any crate)", [c, p](World& w) { w.crates[c].set_parent(w.crates[p]); });
            add("crate::create_sub_crate_after(any crate)", [c, p](World& w) { (void)w.crates[c].create_sub_crate_after("after", w.crates[p]); });
        }
        for (int64_t id : {(int64_t)-1, (int64_t)0, (int64_t)987654}) add("crate::add_track(odd id)", [c, id](World& w) { w.crates[c].add_track(id); (void)w.crates[c].tracks(); });
        for (int t = 0; t < nt; ++t)
        {
            add("crate::add_track(any handle)", [c, t](World& w) { w.crates[c].add_track(w.tracks[t]); (void)w.crates[c].tracks(); });
            add("crate::remove_track(any handle)", [c, t](World& w) { w.crates[c].remove_track(w.tracks[t]); });
        }
        add("crate::clear_tracks", [c](World& w) { w.crates[c].clear_tracks(); });
    }
    // ------------------------------------------------------------------ track (live and stale handles alike)
    for (int t = 0; t < nt; ++t)
    {
        add("track::getters", [t](World& w) {
            auto& h = w.tracks[t];
            (void)h.id(); (void)h.is_valid();
            auto g = [](auto&& f) { try { f(); } catch (const std::exception&) {} };
            g([&] { (void)h.album(); }); g([&] { (void)h.artist(); }); g([&] { (void)h.average_loudness(); }); g([&] { (void)h.beatgrid(); }); g([&] { (void)h.bitrate(); }); g([&] { (void)h.bpm(); });
            g([&] { (void)h.comment(); }); g([&] { (void)h.composer(); }); g([&] { (void)h.containing_crates(); }); g([&] { (void)h.db().uuid(); }); g([&] { (void)h.duration(); }); g([&] { (void)h.file_extension(); });
            g([&] { (void)h.filename(); }); g([&] { (void)h.genre(); }); g([&] { (void)h.hot_cues(); }); g([&] { (void)h.key(); }); g([&] { (void)h.last_played_at(); }); g([&] { (void)h.loops(); });
            g([&] { (void)h.main_cue(); }); g([&] { (void)h.publisher(); }); g([&] { (void)h.rating(); }); g([&] { (void)h.relative_path(); }); g([&] { (void)h.sample_count(); }); g([&] { (void)h.sample_rate(); });
            g([&] { (void)h.title(); }); g([&] { (void)h.track_number(); }); g([&] { (void)h.waveform(); }); g([&] { (void)h.year(); }); g([&] { (void)h.snapshot(); });
        });
        add("track::copy_assign_destroy", [t](World& w) { dj::track a = w.tracks[t]; dj::track b = a; a = b; (void)a.id(); (void)b.is_valid(); });
        for (int idx = -1; idx <= 9; ++idx)
        {
            add("track::hot_cue_at(index " + std::to_string(idx) + ")", [t, idx](World& w) { (void)w.tracks[t].hot_cue_at(idx); });
            add("track::loop_at(index " + std::to_string(idx) + ")", [t, idx](World& w) { (void)w.tracks[t].loop_at(idx); });
            add("track::set_hot_cue_at(index " + std::to_string(idx) + ")", [t, idx](World& w) { w.tracks[t].set_hot_cue_at(idx, dj::hot_cue{"x", 1.0, {}}); w.tracks[t].set_hot_cue_at(idx, std::nullopt); });
            add("track::set_loop_at(index " + std::to_string(idx) + ")", [t, idx](World& w) { w.tracks[t].set_loop_at(idx, dj::loop{"x", 1.0, 2.0, {}}); w.tracks[t].set_loop_at(idx, std::nullopt); });
        }
        add("track::set_hot_cue_at(label 256)", [t](World& w) { w.tracks[t].set_hot_cue_at(0, dj::hot_cue{label_of_len(256), 1.0, {}}); (void)w.tracks[t].hot_cues(); });
        add("track::set_loop_at(label 300)", [t](World& w) { w.tracks[t].set_loop_at(7, dj::loop{label_of_len(300), 1.0, 2.0, {}}); (void)w.tracks[t].loops(); });
        for (size_t n : {(size_t)0, (size_t)1, (size_t)7, (size_t)8, (size_t)9, (size_t)12})
        {
            add("track::set_hot_cues(" + std::to_string(n) + " slots)", [t, n](World& w) { w.tracks[t].set_hot_cues(std::vector<std::optional<dj::hot_cue>>(n, dj::hot_cue{"c", 2.0, {}})); (void)w.tracks[t].hot_cues(); });
            add("track::set_loops(" + std::to_string(n) + " slots)", [t, n](World& w) { w.tracks[t].set_loops(std::vector<std::optional<dj::loop>>(n, dj::loop{"l", 2.0, 3.0, {}})); (void)w.tracks[t].loops(); });
        }
        for (size_t len : {(size_t)0, (size_t)1, (size_t)255, (size_t)256, (size_t)300})
        {
            add("track::set_hot_cues(label length)", [t, len](World& w) { std::vector<std::optional<dj::hot_cue>> v(8); v[3] = dj::hot_cue{label_of_len(len), 2.0, {}}; w.tracks[t].set_hot_cues(v); (void)w.tracks[t].snapshot(); });
            add("track::set_loops(label length)", [t, len](World& w) { std::vector<std::optional<dj::loop>> v(8); v[3] = dj::loop{label_of_len(len), 2.0, 3.0, {}}; w.tracks[t].set_loops(v); (void)w.tracks[t].snapshot(); });
        }
        // every field setter with every value of the C06 alphabet ...
        for (auto& f : fields())
            for (size_t v = 0; f.has_setter && v < f.values.size(); ++v)
                add("track::set_" + f.name, [t, &f, v](World& w) { f.values[v].set(w.tracks[t]); (void)w.tracks[t].snapshot(); });
        // ... and with extreme ones
        add("track::set_beatgrid(single marker)", [t](World& w) { w.tracks[t].set_beatgrid({{0, 5.0}}); (void)w.tracks[t].snapshot(); });
        add("track::set_beatgrid(unsorted)", [t](World& w) { w.tracks[t].set_beatgrid({{4, 50.0}, {0, 5.0}}); (void)w.tracks[t].snapshot(); });
        add("track::set_beatgrid(equal offsets)", [t](World& w) { w.tracks[t].set_beatgrid({{0, 5.0}, {4, 5.0}}); (void)w.tracks[t].snapshot(); });
        add("track::set_beatgrid(extreme)", [t](World& w) { w.tracks[t].set_beatgrid({{INT_MIN, -1e15}, {INT_MAX, 1e15}}); (void)w.tracks[t].snapshot(); });
        for (size_t n : {(size_t)1, (size_t)1023, (size_t)1024, (size_t)1025, (size_t)5000})
            add("track::set_waveform(" + std::to_string(n) + " entries)", [t, n](World& w) { w.tracks[t].set_waveform(std::vector<dj::waveform_entry>(n)); (void)w.tracks[t].waveform(); (void)w.tracks[t].snapshot(); });
        add("track::set_sample_count(max)", [t](World& w) { w.tracks[t].set_sample_count(ULLONG_MAX); (void)w.tracks[t].snapshot(); });
        add("track::set_sample_count(2^63)", [t](World& w) { w.tracks[t].set_sample_count(1ull << 63); (void)w.tracks[t].snapshot(); });
        add("track::set_sample_rate(extreme)", [t](World& w) { w.tracks[t].set_sample_rate(1e15); (void)w.tracks[t].snapshot(); w.tracks[t].set_sample_rate(-44100.0); (void)w.tracks[t].snapshot(); });
        for (double r : {0.5, 1.0, 209.0, 210.0, -0.5})
            add("track::set_sample_rate(tiny)", [t, r](World& w) { w.tracks[t].set_sample_count(88200ull); w.tracks[t].set_waveform(std::vector<dj::waveform_entry>(5)); w.tracks[t].set_sample_rate(r); (void)w.tracks[t].snapshot(); w.tracks[t].set_sample_count(99ull); w.tracks[t].set_waveform(std::vector<dj::waveform_entry>(5)); (void)w.tracks[t].snapshot(); });
        add("track::set_sample_rate(then waveform)", [t](World& w) { w.tracks[t].set_sample_rate(std::nullopt); w.tracks[t].set_waveform(std::vector<dj::waveform_entry>(10)); (void)w.tracks[t].snapshot(); });
        add("track::set_bpm(extreme)", [t](World& w) { w.tracks[t].set_bpm(1e15); (void)w.tracks[t].bpm(); w.tracks[t].set_bpm(-1.0); (void)w.tracks[t].snapshot(); });
        add("track::set_average_loudness(extreme)", [t](World& w) { w.tracks[t].set_average_loudness(1e15); w.tracks[t].set_average_loudness(-1.0); (void)w.tracks[t].snapshot(); });
        add("track::set_main_cue(extreme)", [t](World& w) { w.tracks[t].set_main_cue(-1.0); w.tracks[t].set_main_cue(1e15); (void)w.tracks[t].snapshot(); });
        add("track::set_duration(negative)", [t](World& w) { w.tracks[t].set_duration(milliseconds{-1}); (void)w.tracks[t].duration(); w.tracks[t].set_duration(milliseconds{LLONG_MAX / 2000}); (void)w.tracks[t].snapshot(); });
        add("track::set_last_played_at(before epoch)", [t](World& w) { w.tracks[t].set_last_played_at(system_clock::time_point{seconds{-86400}}); (void)w.tracks[t].last_played_at(); (void)w.tracks[t].snapshot(); });
        add("track::set_rating(extreme)", [t](World& w) { w.tracks[t].set_rating(INT_MAX); w.tracks[t].set_rating(INT_MIN); (void)w.tracks[t].snapshot(); });
        add("track::set_int_fields(extreme)", [t](World& w) { w.tracks[t].set_year(INT_MIN); w.tracks[t].set_track_number(INT_MAX); w.tracks[t].set_bitrate(INT_MIN); (void)w.tracks[t].snapshot(); });
        for (auto& path : std::vector<std::string>{"", ".", "/", "a.", ".hidden", label_of_len(5000) + ".mp3", std::string("a\0b.mp3", 7), "trailing/"})
            add("track::set_relative_path(odd)", [t, path](World& w) { w.tracks[t].set_relative_path(path); (void)w.tracks[t].filename(); (void)w.tracks[t].file_extension(); (void)w.tracks[t].snapshot(); });
        for (auto& str : std::vector<std::string>{std::string("a\0b", 3), label_of_len(100000), "\xff\xfe\xfd"})
            add("track::set_title(odd)", [t, str](World& w) { w.tracks[t].set_title(str); (void)w.tracks[t].title(); (void)w.tracks[t].snapshot(); });
        for (int v = 0; v < NUM_SNAP_VARIANTS; ++v)
            add("track::update(variant " + std::to_string(v) + ")", [t, v](World& w) { w.tracks[t].update(snap_variant(v, w.v2, t)); (void)w.tracks[t].snapshot(); });
    }
    return P;
}

struct Dom : CompositeBase
{
    static bool step(World& w, Model& m, const Op& op, const Outcome& r, Agg&, const std::string&, bool)
    {
        advance(m, op, r, w);
        return true;
    }
    static void visit(World&, Model&, const std::string&, Agg&) {}
};

void run_probe(World& w, const Probe& p, const std::string& cid, Agg& a, const std::vector<int64_t>& dead_track_ids, const std::vector<int64_t>& dead_crate_ids)
{
    const std::string fam = w.v2 ? "v2" : "v1";
    a.count("evaluations");
    Outcome r;
    {
        seam::SqlArm arm;
        r = w.guarded([&] { p.fn(w); });
    }
    if (r.ok) a.count("outcome.returned");
    else if (r.std_ex) a.count("outcome.std_exception");
    else a.violation(fam + "|" + p.name + "|non_std_exception", "[" + schema_name(w.schema) + "] " + p.name + " threw " + r.ex_type + ", which is not derived from std::exception", cid);
    // whatever the call did, the state it left is reachable through the API: every observer must still be safe on it
    // (a crash here is attributed to the probe by the pool; exceptions are answers)
    if (!r.horizon)
    {
        seam::SqlArm arm;
        Outcome r2 = w.guarded([&] { (void)observe(w, true, true); });
        if (r2.horizon) a.violation(fam + "|" + p.name + "|observers_do_not_terminate_afterwards", "[" + schema_name(w.schema) + "] after " + p.name + ": an observer exceeded the VM-step horizon", cid);
        a.count("post_probe_sweeps");
    }
    if (r.horizon) a.violation(fam + "|" + p.name + "|does_not_terminate", "[" + schema_name(w.schema) + "] " + p.name + ": a single SQL statement exceeded the VM-step horizon", cid);
    if (sqlite3_get_autocommit(w.handle) == 0)
    {
        a.violation(fam + "|" + p.name + "|transaction_left_open", "[" + schema_name(w.schema) + "] " + p.name + " left a transaction open", cid);
        try { w.exec("ROLLBACK"); } catch (...) {}
    }
    (void)dead_track_ids;
    (void)dead_crate_ids;
}

int run(const Options& o)
{
    Evidence ev(o, "model_checking");
    Reporter rep(o.property, build_variant());
    Agg total;
    const double t0 = now_s();
    seam::sql_ctl.vm_budget = 50000000;
    if (!o.only.empty())
    {
        // "<schema>|<history>#<probe index>"
        auto hash = o.only.rfind('#');
        std::string state = o.only.substr(0, hash);
        size_t want = (size_t)atoll(o.only.substr(hash + 1).c_str());
        auto r = run_isolated(120, [&](Emitter& em) {
            Agg a;
            auto sch = schema_by_name(state.substr(0, state.find('|')));
            World w(*sch);
            Dom::Model m;
            ex::rebuild<Dom>(w, m, parse_history(state.substr(state.find('|') + 1)), a);
            auto probes = build_probes(w);
            if (want < probes.size())
            {
                printf("  probe %zu: %s\n", want, probes[want].name.c_str());
                fflush(stdout);
                run_probe(w, probes[want], o.only, a, {}, {});
            }
            a.flush(em);
        });
        for (auto& l : r.lines) total.merge_line(l, rep);
        if (r.status != CaseResult::Ok) rep.add(Violation{"crash:" + r.crash_kind + "@" + r.crash_frame, "died: " + r.crash_kind + " in " + r.crash_frame, o.only, Json(r.crash_head)});
        for (auto& kv : rep.firsts()) printf("  %s: %s\n", kv.first.c_str(), kv.second.what.c_str());
        return rep.finish();
    }
    // stage 1: enumerate the states
    ex::Cfg cfg;
    cfg.schemas = all_schemas();
    if (const char* e = getenv("VX_SCHEMAS"))
    {
        cfg.schemas.clear();
        for (auto& n : split(e, ','))
            if (auto s = schema_by_name(n)) cfg.schemas.push_back(*s);
    }
    cfg.depth = o.quick() ? 0 : 1;
    if (o.quick())
        for (auto n : {"1.6.0", "1.18.0-os", "2.18.0", "2.21.2"}) cfg.depth_override[n] = 1;
    else
        for (auto n : {"1.6.0", "1.18.0-os", "2.18.0", "2.21.2"}) cfg.depth_override[n] = 2;
    if (const char* e = getenv("VX_DEPTH")) { cfg.depth = atoi(e); cfg.depth_override.clear(); }
    cfg.collect_histories = true;
    cfg.check_restore = false;
    const double deadline = t0 + (o.deadline_s > 0 ? o.deadline_s : (o.quick() ? 290 : 3000));
    cfg.deadline_abs = deadline;
    Agg explore_total;
    auto st = ex::explore<Dom>(o, cfg, rep, explore_total);
    auto states = st.all_histories;
    std::sort(states.begin(), states.end());
    // stage 2: every probe in every state
    bool dl = false;
    g_substep_timeout_s = 30;
    auto res = run_pool_sub(
        states.size(), o.jobs, 3600,
        [&](size_t si, int64_t from, Emitter& em, Sub& sub) {
            Agg a;
            a.live = &em;
            const std::string& state = states[si];
            auto sch = schema_by_name(state.substr(0, state.find('|')));
            World w(*sch);
            Dom::Model m;
            ex::rebuild<Dom>(w, m, parse_history(state.substr(state.find('|') + 1)), a);
            Image img = w.save();
            auto probes = build_probes(w);
            a.count("probes_per_state_total", (long long)probes.size());
            for (size_t k = (size_t)from; k < probes.size(); ++k)
            {
                sub.at((int64_t)k);
                sub.label(probes[k].name);
                run_probe(w, probes[k], state + "#" + std::to_string(k), a, {}, {});
                w.restore(img);
                if ((k & 63) == 63) a.flush(em);
            }
            // removed handles keep their identity: is_valid() == false (unless the id has been given to a newer live entity,
            // which schema 1.x does: C07's known finding) and id() is still answered
            {
                const std::string fam = w.v2 ? "v2" : "v1";
                std::set<int64_t> live_t, live_c;
                for (size_t k = 0; k < w.tracks.size(); ++k)
                    if (m.t[k]) live_t.insert(w.tracks[k].id());
                for (size_t k = 0; k < w.crates.size(); ++k)
                    if (m.c[k].live) live_c.insert(w.crates[k].id());
                for (size_t k = 0; k < w.tracks.size(); ++k)
                {
                    a.count("evaluations");
                    bool valid = w.tracks[k].is_valid();
                    if (m.t[k] && !valid) a.violation(fam + "|track::is_valid|live_handle_invalid", "[" + schema_name(*sch) + "] handle of a live track reports is_valid() == false", state + "#handles");
                    if (!m.t[k] && valid && !live_t.count(w.tracks[k].id())) a.violation(fam + "|track::is_valid|removed_handle_valid", "[" + schema_name(*sch) + "] handle of a removed track reports is_valid() == true", state + "#handles");
                }
                for (size_t k = 0; k < w.crates.size(); ++k)
                {
                    a.count("evaluations");
                    bool valid = w.crates[k].is_valid();
                    if (m.c[k].live && !valid) a.violation(fam + "|crate::is_valid|live_handle_invalid", "[" + schema_name(*sch) + "] handle of a live crate reports is_valid() == false", state + "#handles");
                    if (!m.c[k].live && valid && !live_c.count(w.crates[k].id())) a.violation(fam + "|crate::is_valid|removed_handle_valid", "[" + schema_name(*sch) + "] handle of a removed crate reports is_valid() == true", state + "#handles");
                }
            }
            a.count("states");
            a.seen("nontrivial", state);
            a.flush(em);
        },
        nullptr, deadline, &dl, 100000);
    size_t done = 0;
    for (size_t i = 0; i < res.size(); ++i)
    {
        auto& r = res[i];
        for (auto& l : r.lines) total.merge_line(l, rep);
        const std::string fam = states[i][0] == '2' ? "v2" : "v1";
        for (auto& sc : r.subcrashes)
        {
            total.count("crashed_calls");
            total.count(sc.timeout ? "outcome.timeout" : "outcome.crash");
            rep.add(Violation{fam + "|" + sc.label + "|" + (sc.timeout ? "hang" : "crash:" + sc.kind) + "@" + sc.frame,
                              "[" + states[i].substr(0, states[i].find('|')) + "] " + sc.label + (sc.timeout ? " does not terminate" : " has undefined behaviour / aborts: " + sc.kind) + " in " + sc.frame,
                              states[i] + "#" + std::to_string(sc.substep), Json(sc.head)});
        }
        if (r.status != CaseResult::Ok) rep.add(Violation{fam + "|task|crash:" + r.crash_kind + "@" + r.crash_frame, "state task died (" + r.crash_kind + ") in " + r.crash_frame, states[i] + "#-1", Json(r.crash_head)});
        else if (r.crash_kind != "not-run") ++done;
    }
    rep.set_counts(total.vcount);
    const bool exhaustive = !dl && !st.deadline_hit && done == states.size();
    auto& c = ev.cov();
    c["states"] = (long long)states.size();
    c["transitions"] = total.get("evaluations") + total.get("crashed_calls");
    c["traces_validated_against_impl"] = total.get("evaluations");
    c["evaluations"] = total.get("evaluations") + total.get("crashed_calls");
    c["distinct_nontrivial"] = total.ndistinct("nontrivial");
    c["rule"] =
        "States: every distinct state of the composite exploration (three seeds, one of which has removed a track whose stale handle is retained; quick: depth 0 on all 18 schemas + depth 1 on "
        "1.6.0 / 1.18.0-os / 2.18.0 / 2.21.2; thorough: depth 1 on all + depth 2 on those four). In every state every public operation is called once per argument class: database lookups with ids "
        "-1, 0, 987654, INT64 min/max and names '', 'x;y', 5000 bytes, embedded NUL, invalid UTF-8; create_track / update with 17 snapshot variants (no rate/count, waveform without rate or count, "
        "12 cues, 9 loops, labels of 256 / 300 bytes, one-marker / unsorted grids, no path, no extension, 1e15 / negative doubles, negative duration, pre-epoch time, INT_MIN ints, 100000-entry "
        "waveform); slot accessors at indices -1..9; set_hot_cues / set_loops with 0,1,7,8,9,12 slots and labels of 0,1,255,256,300 bytes; every C06 setter value plus extreme values; crate "
        "operations with every crate (self, descendant, removed) as parent / after argument and track ids -1, 0, 987654; every getter, setter, copy, assignment, id() and is_valid() on handles of "
        "removed tracks and crates. The state is restored after each call. Oracle: the call returns or throws a std::exception; no ASan / UBSan report, libstdc++ assertion, signal or terminate; "
        "no SQL statement beyond 5e7 VM steps; 30 s watchdog; no transaction left open.";
    c["exhaustive"] = exhaustive;
    Json b = Json::object();
    Json dbs = Json::object();
    for (auto& kv : st.depth_by_schema) dbs[kv.first] = kv.second;
    b["depth_completed_by_schema"] = dbs;
    b["states_total"] = (long long)states.size();
    b["states_completed"] = (long long)done;
    b["deadline_hit"] = dl || st.deadline_hit;
    c["bounds"] = b;
    c["counters"] = total.counters_json();
    c["distinct_outcomes"] = total.counters_json("outcome.");
    for (size_t i = 0; i < states.size() && i < 4; ++i) ev.sample(Json(states[states.size() * i / 4] + "#<every probe>"));
    if (states.empty()) ev.sample(Json("(no state)"));
    ev.assumption("allocation failure is modelled as std::bad_alloc (256 MiB cap under ASan)");
    for (auto& h : total.harness_errors) fprintf(stderr, "harness error: %s\n", h.c_str());
    int bad = rep.finish();
    if (!total.harness_errors.empty()) bad = -1;
    ev.write(bad < 0 ? 0 : bad, rep.known_hits());
    printf("C15 %s: states=%zu/%zu calls=%lld crashed=%lld exhaustive=%d wall=%.1fs\n", o.tier.c_str(), done, states.size(), total.get("evaluations"), total.get("crashed_calls"), (int)exhaustive, now_s() - t0);
    return bad;
}
Registrar reg({"C15", "san", "san", run});
}  // namespace
