// C04, setter half: tracks whose blob columns hold FOREIGN blobs (planted by raw SQL from refcodec frames, with entry
// counts, flags, unknown fields and trailing data the library never writes); every public single-field setter is applied;
// every other blob column must stay byte-identical and the touched blob may differ only in the fields that belong to
// the setter (judged field by field through refcodec's layout map).
#include "c04_setters.hpp"

#include "model/trackfields.hpp"
#include "refcodec/refcodec.hpp"

namespace c04s
{
using namespace vx;
using namespace wm;
using ref::Bytes;

namespace
{
const char* COLS[5] = {"trackData", "overviewWaveFormData", "beatData", "quickCues", "loops"};

struct Planted
{
    std::string name;
    Bytes col[5];  // framed blobs as stored
};
std::vector<Planted> variants()
{
    std::vector<Planted> out;
    auto mk = [&](const std::string& name, const ref::TrackData2& td, const ref::Overview& ov, const ref::BeatData& bd, const ref::QuickCues& qc, const ref::Loops& lp) {
        Planted p;
        p.name = name;
        p.col[0] = ref::frame(ref::encode(td));
        p.col[1] = ref::frame(ref::encode(ov));
        p.col[2] = ref::frame(ref::encode(bd));
        p.col[3] = ref::frame(ref::encode(qc));
        p.col[4] = ref::encode(lp);
        out.push_back(p);
    };
    ref::TrackData2 td;
    td.sample_rate = 44100; td.samples = 88200; td.key = 5; td.loud_low = 0.1; td.loud_mid = 0.2; td.loud_high = 0.3; td.extra = Bytes("\x01\x02\x03", 3);
    ref::Overview ov;
    ov.samples_per_point = 86.1328125;
    for (int i = 0; i < 1024; ++i) ov.points.push_back({{(uint8_t)i, (uint8_t)(i * 3), (uint8_t)(i * 7)}});
    ov.maximum = {{9, 8, 7}};
    ov.extra = Bytes("\xaa", 1);
    ref::BeatData bd;
    bd.sample_rate = 44100; bd.samples = 88200; bd.is_set = 2;
    bd.def = {{100.5, 0, 4, 11}, {88300.5, 4, 0, 12}};
    bd.adj = {{50.25, -4, 8, 21}, {44150.25, 4, 4, 22}, {88250.25, 8, 0, 23}};
    bd.extra = Bytes(9, '\0');
    auto cue = [](int i) { return ref::Cue{"F" + std::to_string(i), 10.5 * (i + 1), (uint8_t)(200 + i), (uint8_t)i, (uint8_t)(2 * i), (uint8_t)(3 * i)}; };
    auto loop = [](int i, uint8_t s, uint8_t e) { return ref::Loop{"G" + std::to_string(i), 20.5 * (i + 1), 20.5 * (i + 1) + 9, s, e, (uint8_t)(100 + i), (uint8_t)i, (uint8_t)(2 * i), (uint8_t)(3 * i)}; };
    {
        // eight slots, odd flags and trailing data
        ref::QuickCues qc;
        for (int i = 0; i < 8; ++i) qc.cues.push_back(i % 2 ? ref::Cue{} : cue(i));
        qc.adjusted_main = 1234.5; qc.is_adjusted = 2; qc.default_main = 1000.25; qc.extra = Bytes("\x09\x09", 2);
        ref::Loops lp;
        for (int i = 0; i < 8; ++i) lp.loops.push_back(i == 1 ? loop(i, 1, 0) : i == 4 ? loop(i, 0, 1) : i == 6 ? loop(i, 2, 1) : ref::Loop{});
        lp.extra = Bytes("\x77", 1);
        mk("eight slots, odd flags, trailing data", td, ov, bd, qc, lp);
    }
    {
        // ten cues and ten loops
        ref::QuickCues qc;
        for (int i = 0; i < 10; ++i) qc.cues.push_back(cue(i));
        qc.adjusted_main = 5; qc.is_adjusted = 1; qc.default_main = 5;
        ref::Loops lp;
        for (int i = 0; i < 10; ++i) lp.loops.push_back(loop(i, 1, 1));
        mk("ten cues and ten loops", td, ov, bd, qc, lp);
    }
    {
        // five cues, three loops, no trailing data anywhere
        ref::TrackData2 t2 = td; t2.extra.clear();
        ref::Overview o2 = ov; o2.extra.clear();
        ref::BeatData b2 = bd; b2.extra.clear(); b2.is_set = 0;
        ref::QuickCues qc;
        for (int i = 0; i < 5; ++i) qc.cues.push_back(cue(i));
        qc.adjusted_main = 0; qc.is_adjusted = 0; qc.default_main = 0;
        ref::Loops lp;
        for (int i = 0; i < 3; ++i) lp.loops.push_back(loop(i, 1, 1));
        mk("five cues and three loops", t2, o2, b2, qc, lp);
    }
    return out;
}

std::string hexlit(const Bytes& b) { return "x'" + hex(b) + "'"; }

// field name -> bytes, through refcodec's layout map
template <class R>
std::map<std::string, Bytes> field_map(const Bytes& payload, bool* ok)
{
    std::map<std::string, Bytes> m;
    R v;
    *ok = ref::decode(payload, v);
    if (!*ok) return m;
    ref::Layout lay;
    Bytes enc = ref::encode(v, &lay);
    if (enc != payload) { *ok = false; return m; }
    for (auto& f : lay) m[f.name] = payload.substr(f.off, f.size);
    return m;
}
bool allowed(const std::string& field, const std::vector<std::string>& prefixes)
{
    for (auto& p : prefixes)
        if (field.rfind(p, 0) == 0) return true;
    return false;
}
}  // namespace

void run_setters(World& w, Agg& a, const std::string& schema)
{
    auto vars = variants();
    // the setters and which fields of which blob column they may touch
    struct Setter { Op op; std::string label; std::map<int, std::vector<std::string>> may; };
    std::vector<Setter> setters;
    for (auto& f : fields())
    {
        if (!f.has_setter) continue;
        size_t ord = f.values.size() > 2 ? 2 : f.values.size() - 1;
        Setter s{Op{"set", {0, (long long)ord}, {f.name}}, "set_" + f.name, {}};
        if (f.name == "hot_cues") { s.op.i[1] = 1; s.may[3] = {"count", "cue["}; }
        else if (f.name == "loops") { s.op.i[1] = 1; s.may[4] = {"count", "loop["}; }
        else if (f.name == "main_cue") s.may[3] = {"adjusted_main", "is_adjusted", "default_main"};
        else if (f.name == "beatgrid") { s.op.i[1] = 1; s.may[2] = {"default", "adjusted", "is_set"}; }
        else if (f.name == "sample_rate") { s.may[0] = {"sample_rate"}; s.may[2] = {"sample_rate"}; }
        else if (f.name == "sample_count") { s.may[0] = {"samples"}; s.may[2] = {"samples"}; }
        else if (f.name == "key") s.may[0] = {"key"};
        else if (f.name == "average_loudness") s.may[0] = {"loud_"};
        else if (f.name == "waveform") { s.op.i[1] = 1; s.may[1] = {"count", "samples_per_point", "points", "maximum"}; }
        setters.push_back(s);
    }
    for (int idx : {0, 3, 7})
    {
        setters.push_back({Op{"set_slot", {0, 1, idx}, {"hot_cue_at"}}, "set_hot_cue_at", {{3, {"cue[" + std::to_string(idx) + "]."}}}});
        setters.push_back({Op{"set_slot", {0, 0, idx}, {"hot_cue_at"}}, "set_hot_cue_at", {{3, {"cue[" + std::to_string(idx) + "]."}}}});
        setters.push_back({Op{"set_slot", {0, 1, idx}, {"loop_at"}}, "set_loop_at", {{4, {"loop[" + std::to_string(idx) + "]."}}}});
    }
    (void)w.apply(Op{"create_track", {2}, {}});
    const int64_t id = w.tracks[0].id();
    for (auto& pv : vars)
    {
        std::string sql = "UPDATE Track SET ";
        for (int c = 0; c < 5; ++c) sql += std::string(c ? ", " : "") + COLS[c] + " = " + hexlit(pv.col[c]);
        w.exec(sql + " WHERE id = " + std::to_string(id));
        Image img = w.save();
        for (auto& s : setters)
        {
            a.count("evaluations");
            a.count("setter_evaluations");
            const std::string cid = "P:" + schema + ":" + pv.name + ":" + s.op.str();
            auto viol = [&](const std::string& inv, const std::string& what) { a.violation("setter|" + s.label + "|" + inv, "[" + schema + ", blobs: " + pv.name + "] " + s.op.str() + ": " + what, cid); };
            Outcome r = w.apply(s.op);
            a.count("transitions");
            if (!r.ok)
            {
                a.count("outcome.setter_rejected");
                // a setter may refuse (e.g. an index beyond a five-slot list), but then nothing may change
                auto now = w.query("SELECT trackData, overviewWaveFormData, beatData, quickCues, loops FROM Track WHERE id = " + std::to_string(id));
                for (int c = 0; c < 5; ++c)
                    if (now[0][(size_t)c] != hexlit(pv.col[c])) viol("rejected_but_blob_changed:" + std::string(COLS[c]), "the setter threw (" + r.ex_type + ") but " + COLS[c] + " changed");
                w.restore(img);
                continue;
            }
            auto now = w.query("SELECT trackData, overviewWaveFormData, beatData, quickCues, loops FROM Track WHERE id = " + std::to_string(id));
            bool ok = true;
            for (int c = 0; c < 5; ++c)
            {
                Bytes after_blob = now[0][(size_t)c] == "<null>" ? Bytes() : unhex(now[0][(size_t)c].substr(2, now[0][(size_t)c].size() - 3));
                auto it = s.may.find(c);
                static const std::vector<std::string> nothing;
                const std::vector<std::string>& may = it == s.may.end() ? nothing : it->second;
                if (it == s.may.end())
                {
                    if (after_blob == pv.col[c]) continue;
                    // a blob that was re-written as a whole may differ in its compressed form and in the one boolean byte the
                    // statement allows to be normalised: compare the payloads field by field below (nothing is allowed to differ)
                    a.count("untouched_blob_rewritten");
                }
                Bytes pb, pa;
                std::string why;
                bool fb = c != 4, d1 = true, d2 = true;
                if (fb) { d1 = ref::unframe(pv.col[c], pb, &why); d2 = ref::unframe(after_blob, pa, &why); }
                else { pb = pv.col[c]; pa = after_blob; }
                if (!d1 || !d2) { ok = false; viol("blob_unreadable:" + std::string(COLS[c]), std::string(COLS[c]) + " no longer unframes: " + why); continue; }
                bool ok1 = true, ok2 = true;
                std::map<std::string, Bytes> mb, ma;
                switch (c)
                {
                    case 0: mb = field_map<ref::TrackData2>(pb, &ok1); ma = field_map<ref::TrackData2>(pa, &ok2); break;
                    case 1: mb = field_map<ref::Overview>(pb, &ok1); ma = field_map<ref::Overview>(pa, &ok2); break;
                    case 2: mb = field_map<ref::BeatData>(pb, &ok1); ma = field_map<ref::BeatData>(pa, &ok2); break;
                    case 3: mb = field_map<ref::QuickCues>(pb, &ok1); ma = field_map<ref::QuickCues>(pa, &ok2); break;
                    default: mb = field_map<ref::Loops>(pb, &ok1); ma = field_map<ref::Loops>(pa, &ok2); break;
                }
                if (!ok1 || !ok2) { ok = false; viol("blob_unreadable:" + std::string(COLS[c]), std::string(COLS[c]) + " does not decode with the independent decoder after the setter"); continue; }
                std::set<std::string> names;
                for (auto& kv : mb) names.insert(kv.first);
                for (auto& kv : ma) names.insert(kv.first);
                for (auto& n : names)
                {
                    if (allowed(n, may)) continue;
                    Bytes x = mb.count(n) ? mb[n] : Bytes("\x00<missing>", 10), y = ma.count(n) ? ma[n] : Bytes("\x00<missing>", 10);
                    if (n == "is_adjusted" && !x.empty() && !y.empty() && x[0] != 0 && y[0] == 1) continue;  // boolean normalisation
                    if (x != y)
                    {
                        ok = false;
                        std::string cls = n.substr(0, n.find_first_of("[."));
                        viol("foreign_field_changed:" + std::string(COLS[c]) + "." + cls, std::string(COLS[c]) + " field " + n + " changed from " + hex(x.substr(0, 24)) + " to " + hex(y.substr(0, 24)) + " although the setter does not concern it");
                        break;
                    }
                }
            }
            if (ok) { a.count("validated"); a.count("setter_validated"); }
            a.seen("inputs", cid);
            a.seen("accepted", cid);
            w.restore(img);
        }
    }
}
}  // namespace c04s
