// C09 — ordered listings (schema 2.x): root_crates(), children() and crate.tracks() return every sibling / entry exactly
// once, in an order that inserts, removes, renames and moves never disturb. Shape (S): BFS in two modes,
//   crate mode  : create_root[_after], create_sub[_after], set_parent, set_name, remove_crate, and playlist_table::update
//                 with every (parent, successor) target, over <= 4 live crates;
//   entity mode : add_track / remove_track / clear_tracks on 2 crates x 3 tracks (entries listed in insertion order).
#include <algorithm>
#include <set>

#include "model/explore.hpp"

namespace
{
using namespace vx;
using namespace wm;
namespace v2 = djinterop::engine::v2;

int max_live() { return getenv("VX_C09_CRATES") ? atoi(getenv("VX_C09_CRATES")) : 4; }

struct Ord
{
    struct C { bool live; int64_t id; int parent; std::string name; };
    std::vector<C> c;
    std::map<int, std::vector<int>> kids;  // parent index (-1 = root) -> ordered child indices
    std::vector<int64_t> track_ids;
    std::map<int, std::vector<int>> entries;  // crate index -> entries in insertion order, each encoded as 2 * track index + (1 if the entry carries a foreign database uuid)
    int created = 0;
    bool entity_mode() const { return !track_ids.empty(); }
    bool below(int x, int anc) const
    {
        for (int p = c[x].parent, g = 0; p >= 0 && g < 16; p = c[p].parent, ++g)
            if (p == anc) return true;
        return false;
    }
    std::vector<int> live() const
    {
        std::vector<int> v;
        for (int k = 0; k < (int)c.size(); ++k)
            if (c[k].live) v.push_back(k);
        return v;
    }
};
std::string seq(const std::vector<int64_t>& v)
{
    std::string s = "[";
    for (size_t k = 0; k < v.size(); ++k) s += (k ? "," : "") + std::to_string(v[k]);
    return s + "]";
}
template <class T>
std::vector<T> without(std::vector<T> v, const T& x)
{
    v.erase(std::remove(v.begin(), v.end(), x), v.end());
    return v;
}

// playlist_table::update through the table API: move crate c under `parent` immediately before `next` (-1 = to the end)
void op_pl_update(World& w, const Op& op)
{
    auto pl = w.lib2->playlist();
    auto row = pl.get(w.crates.at((size_t)op.i[0]).id());
    if (!row) throw std::runtime_error("harness: playlist row missing");
    row->parent_list_id = op.i[1] < 0 ? v2::PARENT_LIST_ID_NONE : w.crates.at((size_t)op.i[1]).id();
    row->next_list_id = op.i[2] < 0 ? v2::PLAYLIST_NO_NEXT_LIST_ID : w.crates.at((size_t)op.i[2]).id();
    pl.update(*row);
}
// the same move, but the row also takes the title of the sibling it is placed before: the last statement of the re-linking
// sequence then violates the UNIQUE (title, parent) constraint by itself - a failure that needs no injected fault
void op_pl_update_dup(World& w, const Op& op)
{
    auto pl = w.lib2->playlist();
    auto row = pl.get(w.crates.at((size_t)op.i[0]).id());
    auto other = pl.get(w.crates.at((size_t)op.i[2]).id());
    if (!row || !other) throw std::runtime_error("harness: playlist row missing");
    row->parent_list_id = op.i[1] < 0 ? v2::PARENT_LIST_ID_NONE : w.crates.at((size_t)op.i[1]).id();
    row->next_list_id = other->id;
    row->title = other->title;
    pl.update(*row);
}
// playlist_entity_table::add_back through the table API, with the library's own uuid (u = 0) or a foreign one (u = 1)
void op_pe_add_back(World& w, const Op& op)
{
    auto pe = w.lib2->playlist_entity();
    v2::playlist_entity_row row{v2::PLAYLIST_ENTITY_ROW_ID_NONE, w.crates.at((size_t)op.i[0]).id(), w.tracks.at((size_t)op.i[1]).id(),
                                op.i[2] ? std::string("11111111-2222-3333-4444-555555555555") : w.uuid, v2::PLAYLIST_ENTITY_NO_NEXT_ENTITY_ID, v2::PLAYLIST_ENTITY_DEFAULT_MEMBERSHIP_REFERENCE};
    // "When adding new rows to the table, there is no need to populate this field" (playlist_entity_row::next_entity_id):
    // the row carries a stale successor, as a row copied from another list would - the id of the list's current first
    // entry for the own-uuid variant, an id that does not exist for the foreign one. Either must be ignored.
    row.next_entity_id = 424242;
    if (!op.i[2])
    {
        auto existing = pe.get_for_list(row.list_id);
        if (!existing.empty()) row.next_entity_id = existing.front().id;
    }
    pe.add_back(row);
}
struct RegisterOps
{
    RegisterOps()
    {
        World::register_op("pl_update", op_pl_update);
        World::register_op("pe_add_back", op_pe_add_back);
        World::register_op("pl_update_dup", op_pl_update_dup);
    }
} register_ops;

struct Dom
{
    using Model = Ord;
    static void init(Model&, World&) {}
    static void visit(World&, Model&, const std::string&, Agg&) {}
    static std::string key_extra(const Model&) { return ""; }
    static std::vector<std::string> seeds(eng::engine_schema)
    {
        return {"",
                // crate mode with crate ids offset from creation ranks
                "create_root(|z);remove_crate(0)",
                // three roots and a sub-crate (enters two levels late): moves of first, middle and last siblings are one operation away
                "@2:create_root(|p);create_root(|q);create_root(|r);create_sub(0|s)",
                // entity mode: three tracks (first one removed again so that ids are offset), two crates
                "create_track(0);remove_track(0);create_track(0);create_track(0);create_track(0);create_root(|x);create_root(|y);add_track(0,1);remove_track_from(0,1)"};
    }
    static std::vector<Op> alphabet(const Model& m, const World&, int remaining)
    {
        std::vector<Op> ops;
        auto live = m.live();
        if (m.entity_mode())
        {
            if (remaining < 1) return ops;  // entity mode (26 operations per state) is explored one level less deep than crate mode
            for (int c : live)
            {
                for (int t = 0; t < (int)m.track_ids.size(); ++t)
                {
                    if (m.track_ids[t] == 0) continue;
                    ops.push_back(Op{"add_track", {c, t}, {}});
                    ops.push_back(Op{"remove_track_from", {c, t}, {}});
                    ops.push_back(Op{"pe_add_back", {c, t, 0}, {}});
                    ops.push_back(Op{"pe_add_back", {c, t, 1}, {}});
                }
                ops.push_back(Op{"clear_tracks", {c}, {}});
            }
            return ops;
        }
        std::string name = "n" + std::to_string(m.created);
        bool can_create = (int)live.size() < max_live() && m.created < max_live() + 2;
        auto kids_of = [&](int p) {
            auto it = m.kids.find(p);
            return it == m.kids.end() ? std::vector<int>{} : it->second;
        };
        if (can_create)
        {
            ops.push_back(Op{"create_root", {}, {name}});
            for (int a : kids_of(-1)) ops.push_back(Op{"create_root_after", {a}, {name}});
            for (int p : live)
            {
                ops.push_back(Op{"create_sub", {p}, {name}});
                for (int a : kids_of(p)) ops.push_back(Op{"create_sub_after", {p, a}, {name}});
            }
            // anchors that are not siblings of the new crate (the receiver itself, a root, a crate elsewhere): a refusal is
            // the expected answer; if the call is accepted the position is open but every listing invariant still applies
            for (int a : live)
                if (m.c[a].parent != -1) ops.push_back(Op{"create_root_after", {a}, {name}});
            for (int p : live)
                for (int a : live)
                    if (m.c[a].parent != p) ops.push_back(Op{"create_sub_after", {p, a}, {name}});
            // a positioned creation whose name is already taken in the target list (the name check of the _after forms is code
            // of its own): a refusal is the expected answer and may not leave anything behind; if accepted, the listing invariants apply
            {
                auto roots = kids_of(-1);
                if (!roots.empty()) ops.push_back(Op{"create_root_after", {roots.front()}, {m.c[roots.back()].name}});
                for (int p : live)
                {
                    auto ks = kids_of(p);
                    if (!ks.empty()) ops.push_back(Op{"create_sub_after", {p, ks.front()}, {m.c[ks.back()].name}});
                }
            }
        }
        for (int c : live)
        {
            // renaming to the name of a sibling (refusal expected)
            for (int sib : kids_of(m.c[c].parent))
                if (sib != c) { ops.push_back(Op{"set_name", {c}, {m.c[sib].name}}); break; }
            ops.push_back(Op{"set_name", {c}, {"r" + std::to_string(m.created)}});
            ops.push_back(Op{"remove_crate", {c}, {}});
            std::vector<int> parents = live;
            parents.push_back(-1);
            for (int p : parents)
            {
                if (p == c || (p >= 0 && m.below(p, c))) continue;
                if (p != m.c[c].parent) ops.push_back(Op{"set_parent", {c, p}, {}});
                // table API: every position in the target list
                ops.push_back(Op{"pl_update", {c, p, -1}, {}});
                for (int nx : kids_of(p))
                    if (nx != c) ops.push_back(Op{"pl_update", {c, p, nx}, {}});
                // ... and once with a title that collides in the target list (moves only: an in-place update is one statement)
                if (p != m.c[c].parent)
                    for (int nx : kids_of(p))
                        if (nx != c) { ops.push_back(Op{"pl_update_dup", {c, p, nx}, {}}); break; }
            }
        }
        return ops;
    }

    static bool step(World& w, Model& m, const Op& op, const Outcome& r, Agg& a, const std::string& cid, bool checking)
    {
        bool healthy = true;
        auto viol = [&](const std::string& inv, const std::string& what) {
            healthy = false;
            if (checking) a.violation("v2|" + op.f + "|" + inv, "[" + schema_name(w.schema) + "] after " + op.str() + ": " + what, cid);
        };
        if (checking) a.count("op." + op.f + (r.ok ? ".ok" : ".rejected"));
        bool foreign_anchor = false;
        if (op.f == "create_root_after") foreign_anchor = m.c[op.i[0]].parent != -1;
        if (op.f == "create_sub_after") foreign_anchor = m.c[op.i[1]].parent != (int)op.i[0];
        // a name that a live crate of the target list already carries: the statement leaves acceptance open
        bool taken_name = false;
        if (op.f == "create_root_after" || op.f == "create_sub_after" || op.f == "set_name")
        {
            int p = op.f == "create_root_after" ? -1 : op.f == "create_sub_after" ? (int)op.i[0] : m.c[op.i[0]].parent;
            auto it = m.kids.find(p);
            if (it != m.kids.end())
                for (int k : it->second)
                    if (m.c[k].live && m.c[k].name == op.s[0] && !(op.f == "set_name" && k == (int)op.i[0])) taken_name = true;
            if (checking && taken_name) a.count(std::string("open_choice.") + op.f + ".taken_name." + (r.ok ? "accepted" : "rejected"));
        }
        if (!r.ok && !foreign_anchor && !taken_name && op.f != "pl_update_dup") viol("rejected_valid_operation", "operation was rejected: " + r.ex_type + ": " + r.what);
        if (op.f == "pl_update_dup" && r.ok) viol("duplicate_title_stored", "a playlist row was moved into a list that already holds its title (the schema's UNIQUE (title, parentListId) should refuse it)");
        // listing of a parent in the implementation, as crate indices (-2 for an unknown id)
        auto impl_list = [&](int p) {
            std::vector<int64_t> ids;
            if (p < 0) for (auto& x : w.db.root_crates()) ids.push_back(x.id());
            else for (auto& x : w.crates[p].children()) ids.push_back(x.id());
            return ids;
        };
        auto ids_of = [&](const std::vector<int>& idx) {
            std::vector<int64_t> v;
            for (int k : idx) v.push_back(m.c[k].id);
            return v;
        };
        // where the statement leaves the position open, the new element may sit anywhere; everything else keeps its order
        auto adopt_position = [&](int p, int who) {
            auto want_rest = ids_of(without(m.kids[p], who));
            std::vector<int64_t> got;
            try { got = impl_list(p); } catch (const std::exception& e) { viol("listing_throws", std::string("listing threw: ") + e.what()); return; }
            auto got_rest = without(got, m.c[who].id);
            if (got_rest != want_rest) { viol("siblings_reordered_or_lost", "siblings of crate " + std::to_string(m.c[who].id) + " are now " + seq(got) + ", the others were " + seq(want_rest)); }
            size_t cnt = std::count(got.begin(), got.end(), m.c[who].id);
            if (cnt != 1) { viol(cnt == 0 ? "crate_missing_from_listing" : "crate_listed_twice", "crate " + std::to_string(m.c[who].id) + " appears " + std::to_string(cnt) + " times among its siblings " + seq(got)); }
            // adopt the implementation's position
            auto& lst = m.kids[p];
            lst = without(lst, who);
            size_t pos = std::find(got.begin(), got.end(), m.c[who].id) - got.begin();
            if (pos > lst.size()) pos = lst.size();
            lst.insert(lst.begin() + (long)pos, who);
        };
        if (r.ok)
        {
            if (op.f == "create_track") m.track_ids.push_back(w.tracks.back().id());
            else if (op.f == "remove_track") { int t = (int)op.i[0]; m.track_ids[t] = 0; for (auto& kv : m.entries) kv.second = without(without(kv.second, 2 * t), 2 * t + 1); }
            else if (op.f == "create_root" || op.f == "create_sub" || op.f == "create_root_after" || op.f == "create_sub_after")
            {
                bool sub = op.f.find("sub") != std::string::npos, after = op.f.find("after") != std::string::npos;
                int p = sub ? (int)op.i[0] : -1;
                int anchor = after ? (int)op.i[sub ? 1 : 0] : -1;
                Ord::C nc{true, w.crates.back().id(), p, op.s[0]};
                m.c.push_back(nc);
                ++m.created;
                int me = (int)m.c.size() - 1;
                if (after && !foreign_anchor)
                {
                    auto& lst = m.kids[p];
                    auto it = std::find(lst.begin(), lst.end(), anchor);
                    lst.insert(it == lst.end() ? lst.end() : it + 1, me);
                }
                else
                {
                    m.kids[p].push_back(me);
                    if (checking) adopt_position(p, me);
                    else
                    {
                        // replay: take the position from the implementation without judging
                        try
                        {
                            auto got = impl_list(p);
                            auto& lst = m.kids[p];
                            lst = without(lst, me);
                            size_t pos = std::find(got.begin(), got.end(), nc.id) - got.begin();
                            lst.insert(lst.begin() + (long)std::min(pos, lst.size()), me);
                        }
                        catch (...) {}
                    }
                }
            }
            else if (op.f == "set_name") { m.c[op.i[0]].name = op.s[0]; ++m.created; }
            else if (op.f == "remove_crate")
            {
                int c = (int)op.i[0];
                std::set<int> gone{c};
                for (int k : m.live())
                    if (m.below(k, c)) gone.insert(k);
                m.kids[m.c[c].parent] = without(m.kids[m.c[c].parent], c);
                for (int k : gone) { m.c[k].live = false; m.kids.erase(k); m.entries.erase(k); }
            }
            else if (op.f == "set_parent" || op.f == "pl_update")
            {
                int c = (int)op.i[0], p = (int)op.i[1];
                int oldp = m.c[c].parent;
                m.kids[oldp] = without(m.kids[oldp], c);
                m.c[c].parent = p;
                if (op.f == "pl_update")
                {
                    int nx = (int)op.i[2];
                    auto& lst = m.kids[p];
                    auto it = nx < 0 ? lst.end() : std::find(lst.begin(), lst.end(), nx);
                    lst.insert(it, c);
                }
                else
                {
                    m.kids[p].push_back(c);
                    if (checking) adopt_position(p, c);
                    else
                    {
                        try
                        {
                            auto got = impl_list(p);
                            auto& lst = m.kids[p];
                            lst = without(lst, c);
                            size_t pos = std::find(got.begin(), got.end(), m.c[c].id) - got.begin();
                            lst.insert(lst.begin() + (long)std::min(pos, lst.size()), c);
                        }
                        catch (...) {}
                    }
                }
            }
            else if (op.f == "add_track" || op.f == "pe_add_back")
            {
                auto& e = m.entries[(int)op.i[0]];
                int code = 2 * (int)op.i[1] + (op.f == "pe_add_back" ? (int)op.i[2] : 0);
                if (std::find(e.begin(), e.end(), code) == e.end()) e.push_back(code);
            }
            else if (op.f == "remove_track_from") m.entries[(int)op.i[0]] = without(without(m.entries[(int)op.i[0]], 2 * (int)op.i[1]), 2 * (int)op.i[1] + 1);
            else if (op.f == "clear_tracks") m.entries[(int)op.i[0]].clear();
        }
        if (!checking) return healthy;
        a.count("states_checked");
        try
        {
            // every listing equals the model's order exactly (which also rules out loss and duplication)
            std::vector<int> parents = m.live();
            parents.push_back(-1);
            for (int p : parents)
            {
                auto got = impl_list(p);
                auto want = ids_of(m.kids.count(p) ? m.kids[p] : std::vector<int>{});
                if (got != want)
                {
                    auto gs = got, ws = want;
                    std::sort(gs.begin(), gs.end());
                    std::sort(ws.begin(), ws.end());
                    viol(gs == ws ? "order_changed" : "listing_lost_or_duplicated", std::string(p < 0 ? "root_crates()" : "children() of crate " + std::to_string(m.c[p].id)) + " = " + seq(got) + ", expected " + seq(want));
                }
            }
            for (int c : m.live())
            {
                std::vector<int64_t> got, want;
                for (auto& t : w.crates[c].tracks()) got.push_back(t.id());
                for (int t : m.entries.count(c) ? m.entries[c] : std::vector<int>{}) want.push_back(m.track_ids[t / 2]);
                if (got != want) viol("entry_order", "crate " + std::to_string(m.c[c].id) + " tracks() = " + seq(got) + ", expected insertion order " + seq(want));
                // the table-level listing carries the database uuid of each entry as well
                std::string got_e, want_e;
                for (auto& e : w.lib2->playlist_entity().get_for_list(m.c[c].id)) got_e += std::to_string(e.track_id) + (e.database_uuid == w.uuid ? "o " : "f ");
                for (int t : m.entries.count(c) ? m.entries[c] : std::vector<int>{}) want_e += std::to_string(m.track_ids[t / 2]) + (t % 2 ? "f " : "o ");
                if (got_e != want_e) viol("entity_listing", "playlist " + std::to_string(m.c[c].id) + " get_for_list() = [" + got_e + "], expected [" + want_e + "] (o = own uuid, f = foreign uuid)");
            }
            // the raw chains, walked independently of the library
            auto chain_ok = [&](const std::string& table, const std::string& group_col, const std::string& next_col) {
                auto rows = w.query("SELECT " + group_col + ", id, " + next_col + " FROM " + table + " ORDER BY " + group_col + ", id");
                std::map<std::string, std::map<long long, long long>> g;  // group -> id -> next
                for (auto& r2 : rows) g[r2[0]][atoll(r2[1].c_str())] = atoll(r2[2].c_str());
                for (auto& kv : g)
                {
                    int tails = 0;
                    std::map<long long, long long> pred;
                    bool dup_next = false;
                    for (auto& e : kv.second)
                    {
                        if (e.second == 0) ++tails;
                        else if (!pred.insert({e.second, e.first}).second) dup_next = true;
                    }
                    size_t visited = 0;
                    long long cur = 0;
                    for (auto& e : kv.second) if (e.second == 0) cur = e.first;
                    std::set<long long> seen;
                    while (cur && seen.insert(cur).second) { ++visited; auto it = pred.find(cur); cur = it == pred.end() ? 0 : it->second; }
                    if (tails != 1 || dup_next || visited != kv.second.size())
                        viol("raw_chain_" + table, table + " rows of " + group_col + "=" + kv.first + " do not form one chain: tails=" + std::to_string(tails) + " visited=" + std::to_string(visited) + "/" + std::to_string(kv.second.size()));
                }
            };
            chain_ok("Playlist", "parentListId", "nextListId");
            chain_ok("PlaylistEntity", "listId", "nextEntityId");
        }
        catch (const std::exception& e)
        {
            viol("query_throws", std::string("a listing threw: ") + e.what());
        }
        if (healthy) a.count("validated");
        size_t longest = 0;
        for (auto& kv : m.kids) longest = std::max(longest, kv.second.size());
        for (auto& kv : m.entries) longest = std::max(longest, kv.second.size());
        if (longest >= 2) a.seen("nontrivial", w.dump());
        return healthy;
    }
};

int run(const Options& o)
{
    Evidence ev(o, "model_checking");
    Reporter rep(o.property, build_variant());
    Agg total;
    const double t0 = now_s();
    if (!o.only.empty())
    {
        ex::replay<Dom>(o.only, rep, total);
        for (auto& kv : rep.firsts()) printf("  %s: %s\n", kv.first.c_str(), kv.second.what.c_str());
        return rep.finish();
    }
    ex::Cfg cfg;
    for (auto s : all_schemas())
        if (is_v2(s)) cfg.schemas.push_back(s);
    if (const char* e = getenv("VX_SCHEMAS"))
    {
        cfg.schemas.clear();
        for (auto& n : split(e, ','))
            if (auto s = schema_by_name(n)) cfg.schemas.push_back(*s);
    }
    cfg.depth = o.quick() ? 4 : 6;
    if (const char* e = getenv("VX_DEPTH")) cfg.depth = atoi(e);
    cfg.deadline_abs = t0 + (o.deadline_s > 0 ? o.deadline_s : (o.quick() ? 280 : 3000));
    auto st = ex::explore<Dom>(o, cfg, rep, total);
    rep.set_counts(total.vcount);
    bool exhaustive = !st.deadline_hit;
    for (auto& kv : st.depth_by_schema)
        if (kv.second < cfg.depth) exhaustive = false;
    auto& c = ev.cov();
    c["states"] = st.states;
    c["transitions"] = st.transitions;
    c["traces_validated_against_impl"] = total.get("validated");
    c["evaluations"] = st.transitions;
    c["distinct_nontrivial"] = total.ndistinct("nontrivial");
    c["rule"] =
        "Explicit-state BFS on the real library for each 2.x schema version. Crate mode: create_root_crate, create_root_crate_after(a) for every root a, create_sub_crate(p), "
        "create_sub_crate_after(p,a) for every child a of p, set_parent(c,p) for every non-descendant p and none, set_name, remove_crate, and playlist_table::update moving c under every "
        "admissible parent at every position (before each sibling and at the end); <= 4 live crates; seeds with offset ids. Entity mode: add_track / remove_track / clear_tracks and playlist_entity_table::add_back with the library's own and with a foreign database uuid, on 2 crates x 3 "
        "tracks. After every transition each root_crates()/children() listing must equal the model's ordered list exactly (positions the statement leaves open are adopted from the implementation "
        "after checking that the other siblings kept their order and that the crate appears exactly once), tracks() must be in insertion order, and the raw nextListId / nextEntityId chains, "
        "walked without the library, must be single chains covering all rows. Non-trivial = distinct states with a listing of length >= 2.";
    c["exhaustive"] = exhaustive;
    Json b = Json::object();
    b["depth"] = cfg.depth;
    b["max_live_crates"] = max_live();
    Json dbs = Json::object();
    for (auto& kv : st.depth_by_schema) dbs[kv.first] = kv.second;
    b["depth_completed_by_schema"] = dbs;
    b["deadline_hit"] = st.deadline_hit;
    b["states_not_expanded_because_violating"] = st.unhealthy;
    c["bounds"] = b;
    c["counters"] = total.counters_json();
    for (auto& h : st.sample_histories) ev.sample(Json(h));
    if (st.sample_histories.empty()) ev.sample(Json("(no history of length >= 2 was reached)"));
    for (auto& h : total.harness_errors) fprintf(stderr, "harness error: %s\n", h.c_str());
    int bad = rep.finish();
    if (!total.harness_errors.empty()) bad = -1;
    ev.write(bad < 0 ? 0 : bad, rep.known_hits());
    printf("C09 %s: states=%lld transitions=%lld validated=%lld nontrivial=%lld unhealthy_states=%lld exhaustive=%d wall=%.1fs\n", o.tier.c_str(), st.states, st.transitions, total.get("validated"),
           total.ndistinct("nontrivial"), st.unhealthy, (int)exhaustive, now_s() - t0);
    return bad;
}
Registrar reg({"C09", "san", "opt", run});
}  // namespace
