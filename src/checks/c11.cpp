// C11 — the stored database stays a well-formed Engine library, as judged by a reader that is independent of the library:
// raw SQL on the captured connection + refcodec for the blobs. Shape (S): every distinct state of the composite
// exploration (plus path and non-ASCII rename operations) is inspected.
#include <algorithm>

#include "model/composite.hpp"
#include "refcodec/refcodec.hpp"

namespace
{
using namespace vx;
using namespace wm;
using Rows = std::vector<std::vector<std::string>>;

std::string basename_of(const std::string& p)
{
    auto s = p.find_last_of('/');
    return s == std::string::npos ? p : p.substr(s + 1);
}
std::string ext_of(const std::string& p)
{
    std::string b = basename_of(p);
    auto d = b.find_last_of('.');
    return d == std::string::npos ? "" : b.substr(d + 1);
}
std::string unx(const std::string& cell)  // x'..' -> bytes
{
    if (cell.size() >= 3 && cell[0] == 'x' && cell[1] == '\'') return unhex(cell.substr(2, cell.size() - 3));
    return cell == "<null>" ? "" : cell;
}

struct Dom : CompositeBase
{
    static std::vector<std::string> seeds(eng::engine_schema s)
    {
        auto v = CompositeBase::seeds(s);
        // a parent with two children next to another root: the first child is a non-last sibling somewhere else in the tree
        v.push_back("@1:create_root(|p);create_sub(0|a);create_sub(0|b);create_root(|q)");
        return v;
    }
    static std::vector<Op> alphabet(const Model& m, const World& w, int d)
    {
        auto ops = CompositeBase::alphabet(m, w, d);
        for (int t = 0; t < (int)m.t.size(); ++t)
            if (m.t[t])
            {
                ops.push_back(Op{"set", {t, 1}, {"relative_path"}});  // "noext"
                ops.push_back(Op{"set", {t, 2}, {"relative_path"}});  // "dir.d/file.tar.gz"
            }
        for (int c = 0; c < (int)m.c.size(); ++c)
            if (m.c[c].live) ops.push_back(Op{"set_name", {c}, {"\xc3\x9cn\xc3\xaf" + std::to_string(m.names)}});
        // 2.x: positioned creations with EVERY live crate as the anchor - siblings (accepted) and crates from elsewhere in the tree (to be
        // refused; if one is accepted, the chains of the resulting state are judged like any other state's)
        if (w.v2)
        {
            std::vector<int> lc;
            for (int c = 0; c < (int)m.c.size(); ++c)
                if (m.c[c].live) lc.push_back(c);
            // proper anchors (siblings) only while the crate limit allows another crate; anchors from elsewhere always: on a correct tree
            // they are refused and the state space does not grow
            const bool room = (int)lc.size() < max_crates() && (int)m.c.size() < max_crates() + 2;
            const std::string nm = "a" + std::to_string(m.names);
            for (int a : lc)
            {
                if (m.c[a].parent >= 0 || room) ops.push_back(Op{"create_root_after", {a}, {nm}});
                for (int p : lc)
                    if (p != a && (m.c[a].parent != p || room)) ops.push_back(Op{"create_sub_after", {p, a}, {nm}});
            }
        }
        return ops;
    }
    static bool step(World& w, Model& m, const Op& op, const Outcome& r, Agg& a, const std::string&, bool checking)
    {
        advance(m, op, r, w);
        if (checking) a.count("op." + op.f + (r.ok ? ".ok" : ".rejected"));
        return true;
    }

    template <class R>
    static bool blob_ok(const std::string& cell, bool framed, std::string& why)
    {
        if (cell == "<null>") return true;
        std::string blob = unx(cell);
        if (blob.empty()) return true;
        std::string payload;
        if (framed)
        {
            if (!ref::unframe(blob, payload, &why)) return false;
            if (payload.empty()) return true;
        }
        else
            payload = blob;
        R v;
        return ref::decode(payload, v, &why);
    }

    static void visit(World& w, Model&, const std::string& cid, Agg& a)
    {
        const std::string fam = w.v2 ? "v2" : "v1";
        bool ok = true;
        auto hist = parse_history(cid.substr(cid.find('|') + 1));
        const std::string last = hist.empty() ? "seed" : hist.back().f;
        auto viol = [&](const std::string& inv, const std::string& what) {
            ok = false;
            // state predicates: a damaged row stays damaged in every later state, so the key names the invariant, not the last operation
            a.violation(fam + "|" + inv, "[" + schema_name(w.schema) + "] after " + last + ": " + what, cid);
        };
        try
        {
            // 1-3: SQLite's own checks and verify()
            for (auto& d : w.query("PRAGMA database_list"))
            {
                auto ic = w.query("PRAGMA " + d[1] + ".integrity_check");
                if (ic.size() != 1 || ic[0][0] != "ok") viol("integrity_check", "PRAGMA " + d[1] + ".integrity_check: " + (ic.empty() ? "?" : ic[0][0]));
                auto fk = w.query("PRAGMA " + d[1] + ".foreign_key_check");
                if (!fk.empty()) viol("foreign_key_check:" + fk[0][0] + "->" + fk[0][2] + "@" + schema_name(w.schema), "PRAGMA " + d[1] + ".foreign_key_check reports " + std::to_string(fk.size()) + " dangling reference(s), first in table " + fk[0][0] + " rowid " + fk[0][1] + " -> " + fk[0][2]);
            }
            try { w.db.verify(); } catch (const std::exception& e) { viol("verify", std::string("verify() fails: ") + e.what()); }
            const std::string uuid = w.query(w.v2 ? "SELECT uuid FROM Information" : "SELECT uuid FROM music.Information")[0][0];
            if (w.v2)
            {
                // 4: blobs
                for (auto& r : w.query("SELECT id, trackData, overviewWaveFormData, beatData, quickCues, loops FROM Track"))
                {
                    std::string why;
                    if (!blob_ok<ref::TrackData2>(r[1], true, why)) viol("blob_trackData", "Track " + r[0] + " trackData does not decode: " + why);
                    if (!blob_ok<ref::Overview>(r[2], true, why)) viol("blob_overviewWaveFormData", "Track " + r[0] + " overviewWaveFormData does not decode: " + why);
                    if (!blob_ok<ref::BeatData>(r[3], true, why)) viol("blob_beatData", "Track " + r[0] + " beatData does not decode: " + why);
                    if (!blob_ok<ref::QuickCues>(r[4], true, why)) viol("blob_quickCues", "Track " + r[0] + " quickCues does not decode: " + why);
                    if (!blob_ok<ref::Loops>(r[5], false, why)) viol("blob_loops", "Track " + r[0] + " loops does not decode: " + why);
                }
                // 6: chains and references
                auto chain = [&](const std::string& table, const std::string& grp, const std::string& next) {
                    std::map<std::string, std::map<long long, long long>> g;
                    for (auto& r : w.query("SELECT " + grp + ", id, " + next + " FROM " + table)) g[r[0]][atoll(r[1].c_str())] = atoll(r[2].c_str());
                    for (auto& kv : g)
                    {
                        std::map<long long, long long> pred;
                        int tails = 0;
                        bool dup = false;
                        long long cur = 0;
                        for (auto& e : kv.second)
                        {
                            if (e.second == 0) { ++tails; cur = e.first; }
                            else if (!pred.insert({e.second, e.first}).second) dup = true;
                        }
                        std::set<long long> seen;
                        while (cur && seen.insert(cur).second) { auto it = pred.find(cur); cur = it == pred.end() ? 0 : it->second; }
                        if (tails != 1 || dup || seen.size() != kv.second.size())
                            viol("chain_" + table, table + " rows with " + grp + " = " + kv.first + " are not one acyclic chain covering all rows (tails " + std::to_string(tails) + ", reached " + std::to_string(seen.size()) + " of " + std::to_string(kv.second.size()) + ")");
                    }
                };
                chain("Playlist", "parentListId", "nextListId");
                chain("PlaylistEntity", "listId", "nextEntityId");
                auto orphan_lists = w.query("SELECT id, parentListId FROM Playlist WHERE parentListId <> 0 AND parentListId NOT IN (SELECT id FROM Playlist)");
                if (!orphan_lists.empty()) viol("playlist_parent_missing", "Playlist " + orphan_lists[0][0] + " has parentListId " + orphan_lists[0][1] + ", which does not exist");
                auto oe = w.query("SELECT id, listId, trackId FROM PlaylistEntity WHERE listId NOT IN (SELECT id FROM Playlist) OR (databaseUuid = (SELECT uuid FROM Information) AND trackId NOT IN (SELECT id FROM Track))");
                if (!oe.empty()) viol("playlist_entity_dangling", "PlaylistEntity " + oe[0][0] + " refers to list " + oe[0][1] + " / track " + oe[0][2] + ", which no longer exists");
                // 7: derived columns
                for (auto& r : w.query("SELECT id, path, filename, fileType, originDatabaseUuid, originTrackId FROM Track"))
                {
                    if (r[2] != basename_of(r[1])) viol("filename_vs_path", "Track " + r[0] + " filename '" + r[2] + "' but path '" + r[1] + "'");
                    if (r[3] != ext_of(r[1])) viol("filetype_vs_path", "Track " + r[0] + " fileType '" + r[3] + "' but path '" + r[1] + "'");
                    if (r[4] != uuid) viol("origin_uuid", "Track " + r[0] + " originDatabaseUuid is not the library uuid");
                    if (r[5] != r[0]) viol("origin_track_id", "Track " + r[0] + " originTrackId = " + r[5]);
                }
                // the API's forest equals the raw one
                for (auto& c : w.db.crates())
                {
                    auto raw = w.query("SELECT parentListId FROM Playlist WHERE id = " + std::to_string(c.id()));
                    auto p = c.parent();
                    if (raw.empty() || atoll(raw[0][0].c_str()) != (p ? p->id() : 0)) viol("api_forest_vs_raw", "crate " + std::to_string(c.id()) + " parent() disagrees with Playlist.parentListId");
                }
            }
            else
            {
                const std::string live_tracks = "(SELECT id FROM music.Track WHERE path IS NOT NULL)";
                for (auto& r : w.query("SELECT id, trackData, highResolutionWaveFormData, overviewWaveFormData, beatData, quickCues, loops FROM perfdata.PerformanceData"))
                {
                    std::string why;
                    if (!blob_ok<ref::TrackData1>(r[1], true, why)) viol("blob_trackData", "PerformanceData " + r[0] + " trackData does not decode: " + why);
                    if (!blob_ok<ref::HighRes>(r[2], true, why)) viol("blob_highResolutionWaveFormData", "PerformanceData " + r[0] + " highResolutionWaveFormData does not decode: " + why);
                    if (!blob_ok<ref::Overview>(r[3], true, why)) viol("blob_overviewWaveFormData", "PerformanceData " + r[0] + " overviewWaveFormData does not decode: " + why);
                    if (!blob_ok<ref::BeatData>(r[4], true, why)) viol("blob_beatData", "PerformanceData " + r[0] + " beatData does not decode: " + why);
                    if (!blob_ok<ref::QuickCues>(r[5], true, why)) viol("blob_quickCues", "PerformanceData " + r[0] + " quickCues does not decode: " + why);
                    if (!blob_ok<ref::Loops>(r[6], false, why)) viol("blob_loops", "PerformanceData " + r[0] + " loops does not decode: " + why);
                }
                // 8: no rows for dead tracks / crates
                for (auto q : {std::make_pair("MetaData", "SELECT id FROM music.MetaData WHERE id NOT IN " + live_tracks), std::make_pair("MetaDataInteger", "SELECT id FROM music.MetaDataInteger WHERE id NOT IN " + live_tracks),
                               std::make_pair("PerformanceData", "SELECT id FROM perfdata.PerformanceData WHERE id NOT IN " + live_tracks),
                               std::make_pair("CrateTrackList", "SELECT trackId FROM music.CrateTrackList WHERE trackId NOT IN " + live_tracks + " OR crateId NOT IN (SELECT id FROM music.Crate)")})
                {
                    auto rows = w.query(q.second);
                    if (!rows.empty()) viol(std::string("rows_for_dead_entity:") + q.first, std::string(q.first) + " still has " + std::to_string(rows.size()) + " row(s) for a removed track or crate (id " + rows[0][0] + ")");
                }
                // 5: three encodings of the crate forest
                std::map<long long, std::string> title, path;
                std::map<long long, long long> parent;  // 0 = root
                for (auto& r : w.query("SELECT id, title, path FROM music.Crate")) { title[atoll(r[0].c_str())] = r[1]; path[atoll(r[0].c_str())] = r[2]; }
                std::map<long long, int> plrows;
                for (auto& r : w.query("SELECT crateOriginId, crateParentId FROM music.CrateParentList"))
                {
                    long long o = atoll(r[0].c_str()), p = atoll(r[1].c_str());
                    ++plrows[o];
                    parent[o] = o == p ? 0 : p;
                    if (!title.count(o) || !title.count(p)) viol("parentlist_dangling", "CrateParentList row (" + r[0] + "," + r[1] + ") names a crate that does not exist");
                }
                for (auto& kv : title)
                    if (plrows[kv.first] != 1) viol("parentlist_rows", "crate " + std::to_string(kv.first) + " has " + std::to_string(plrows[kv.first]) + " CrateParentList rows (expected exactly 1)");
                auto ancestors = [&](long long c) {
                    std::vector<long long> v;
                    for (long long p = parent.count(c) ? parent[c] : 0, g = 0; p && g < 32; p = parent.count(p) ? parent[p] : 0, ++g) v.push_back(p);
                    return v;
                };
                for (auto& kv : title)
                {
                    auto anc = ancestors(kv.first);
                    std::string want;
                    for (auto it = anc.rbegin(); it != anc.rend(); ++it) want += title[*it] + ";";
                    want += kv.second + ";";
                    if (path[kv.first] != want) viol("crate_path", "crate " + std::to_string(kv.first) + " has path '" + path[kv.first] + "', but its ancestors in CrateParentList spell '" + want + "'");
                }
                std::set<std::pair<long long, long long>> want_h, got_h;
                for (auto& kv : title)
                    for (auto a2 : ancestors(kv.first)) want_h.insert({a2, kv.first});
                for (auto& r : w.query("SELECT crateId, crateIdChild FROM music.CrateHierarchy")) got_h.insert({atoll(r[0].c_str()), atoll(r[1].c_str())});
                if (want_h != got_h)
                {
                    std::string d;
                    for (auto& p : want_h) if (!got_h.count(p)) d += " missing(" + std::to_string(p.first) + ">" + std::to_string(p.second) + ")";
                    for (auto& p : got_h) if (!want_h.count(p)) d += " extra(" + std::to_string(p.first) + ">" + std::to_string(p.second) + ")";
                    viol("crate_hierarchy", "CrateHierarchy is not the transitive closure of CrateParentList:" + d);
                }
                for (auto& c : w.db.crates())
                {
                    auto p = c.parent();
                    if ((p ? p->id() : 0) != (parent.count(c.id()) ? parent[c.id()] : -1)) viol("api_forest_vs_raw", "crate " + std::to_string(c.id()) + " parent() disagrees with CrateParentList");
                }
                // 7: derived columns
                for (auto& r : w.query("SELECT t.id, t.path, t.filename, (SELECT text FROM music.MetaData m WHERE m.id = t.id AND m.type = 13) FROM music.Track t WHERE t.path IS NOT NULL"))
                {
                    if (r[2] != basename_of(r[1])) viol("filename_vs_path", "Track " + r[0] + " filename '" + r[2] + "' but path '" + r[1] + "'");
                    std::string e = r[3] == "<null>" ? "" : r[3];
                    if (e != ext_of(r[1])) viol("extension_vs_path", "Track " + r[0] + " file-extension metadata '" + r[3] + "' but path '" + r[1] + "'");
                }
            }
        }
        catch (const std::exception& e)
        {
            viol("reader_throws", std::string("independent reader failed: ") + e.what());
        }
        a.count("evaluations");
        if (ok) a.count("validated");
        a.seen("nontrivial", w.dump());
    }
};

int run(const Options& o)
{
    Evidence ev(o, "model_checking");
    Reporter rep(o.property, build_variant());
    Agg total;
    const double t0 = now_s();
    if (!o.only.empty())
    {
        auto r = run_isolated(120, [&](Emitter& em) {
            Agg a;
            auto sch = schema_by_name(o.only.substr(0, o.only.find('|')));
            World w(*sch);
            Dom::Model m;
            ex::rebuild<Dom>(w, m, parse_history(o.only.substr(o.only.find('|') + 1)), a);
            Dom::visit(w, m, o.only, a);
            a.flush(em);
        });
        for (auto& l : r.lines) total.merge_line(l, rep);
        if (r.status != CaseResult::Ok) rep.add(Violation{"crash:" + r.crash_kind, "died: " + r.crash_kind + " in " + r.crash_frame, o.only, Json(r.crash_head)});
        for (auto& kv : rep.firsts()) printf("  %s: %s\n", kv.first.c_str(), kv.second.what.c_str());
        return rep.finish();
    }
    ex::Cfg cfg;
    cfg.schemas = all_schemas();
    if (const char* e = getenv("VX_SCHEMAS"))
    {
        cfg.schemas.clear();
        for (auto& n : split(e, ','))
            if (auto s = schema_by_name(n)) cfg.schemas.push_back(*s);
    }
    cfg.depth = o.quick() ? 2 : 4;
    if (const char* e = getenv("VX_DEPTH")) cfg.depth = atoi(e);
    cfg.visit_states = true;
    cfg.deadline_abs = t0 + (o.deadline_s > 0 ? o.deadline_s : (o.quick() ? 280 : 3000));
    auto st = ex::explore<Dom>(o, cfg, rep, total);
    rep.set_counts(total.vcount);
    bool exhaustive = !st.deadline_hit;
    for (auto& kv : st.depth_by_schema)
        if (kv.second < cfg.depth) exhaustive = false;
    auto& c = ev.cov();
    c["states"] = st.states;
    c["transitions"] = st.transitions;
    c["traces_validated_against_impl"] = total.get("validated");
    c["evaluations"] = total.get("evaluations");
    c["distinct_nontrivial"] = total.ndistinct("nontrivial");
    c["rule"] =
        "Every distinct state of the composite exploration extended with set_relative_path (no extension / dotted directory) renames to a multi-byte UTF-8 name and, on 2.x, positioned creations (create_root_crate_after / create_sub_crate_after) with every live crate as the anchor. In each state an independent "
        "reader (raw SQL on the captured connection, never the library's accessors; blobs through refcodec) checks: PRAGMA integrity_check and foreign_key_check clean on every attached file; "
        "verify() passes; every performance blob unframes and decodes; 1.x: Crate.path equals the ancestor titles spelled by CrateParentList, every crate has exactly one parent-list row, "
        "CrateHierarchy is exactly the transitive closure, no MetaData / MetaDataInteger / PerformanceData / CrateTrackList rows for removed tracks or crates, filename and file-extension metadata "
        "agree with the path; 2.x: nextListId per parent and nextEntityId per list form single acyclic chains covering all rows, no Playlist row with a missing parent, no PlaylistEntity row for a "
        "missing list or track, filename / fileType / originTrackId / originDatabaseUuid agree with path, id and Information.uuid; the forest reported by the API equals the raw one.";
    c["exhaustive"] = exhaustive;
    Json b = Json::object();
    b["depth"] = cfg.depth;
    Json dbs = Json::object();
    for (auto& kv : st.depth_by_schema) dbs[kv.first] = kv.second;
    b["depth_completed_by_schema"] = dbs;
    b["deadline_hit"] = st.deadline_hit;
    c["bounds"] = b;
    c["counters"] = total.counters_json();
    for (auto& h : st.sample_histories) ev.sample(Json(h));
    if (st.sample_histories.empty()) ev.sample(Json("(none)"));
    ev.assumption("the reader runs on the library's own connection (captured handle) for in-memory libraries; that on-disk libraries hold the same content is C10's business");
    for (auto& h : total.harness_errors) fprintf(stderr, "harness error: %s\n", h.c_str());
    int bad = rep.finish();
    if (!total.harness_errors.empty()) bad = -1;
    ev.write(bad < 0 ? 0 : bad, rep.known_hits());
    printf("C11 %s: states=%lld inspected=%lld validated=%lld exhaustive=%d wall=%.1fs\n", o.tier.c_str(), st.states, total.get("evaluations"), total.get("validated"), (int)exhaustive, now_s() - t0);
    return bad;
}
Registrar reg({"C11", "san", "opt", run});
}  // namespace
