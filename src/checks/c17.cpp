// C17 — verify() reports every structural deviation from the schema. Shape (I): complete enumeration of a mechanically
// generated mutant set. For each schema version the DDL of a freshly created library is read from sqlite_master; every
// single-element mutation (drop / add / rename a table, view, index or column; change a column's type, nullability,
// default or primary-key membership; change an index's uniqueness or columns) is applied to the DDL text, the database
// file is re-hydrated from the mutated DDL, placed in the proper layout, loaded and verified.
#include <sys/stat.h>
#include <unistd.h>

#include <regex>

#include "common/agg.hpp"
#include "model/schemafp.hpp"
#include "model/world.hpp"

namespace
{
using namespace vx;
using namespace wm;

struct Obj
{
    std::string type, name, tbl, sql;
};
struct Ddl
{
    std::vector<Obj> objs;                        // in creation order
    std::vector<std::string> copy_rows_of;        // tables whose rows are copied from the pristine file (Information, ...)
};
std::vector<Obj> read_ddl(const std::string& file)
{
    std::vector<Obj> out;
    sqlite3* db = nullptr;
    if (sqlite3_open_v2(file.c_str(), &db, SQLITE_OPEN_READONLY, nullptr) != SQLITE_OK) throw std::runtime_error("cannot open " + file);
    for (auto& r : sfp::q(db, "SELECT type, name, tbl_name, sql FROM sqlite_master WHERE sql IS NOT NULL AND name NOT LIKE 'sqlite_%' ORDER BY rowid")) out.push_back({r[0], r[1], r[2], r[3]});
    sqlite3_close(db);
    return out;
}

// ---------------------------------------------------------------------------- CREATE TABLE parsing (column definitions)
struct Col
{
    std::string text;  // whole definition
    std::string name;
};
struct TableDef
{
    std::string head;  // up to and including the opening parenthesis
    std::vector<std::string> items;  // column definitions and table constraints
    std::string tail;  // closing parenthesis and what follows
    std::vector<size_t> col_idx;  // indices of items that are column definitions
};
bool parse_table(const std::string& sql, TableDef& t)
{
    auto open = sql.find('(');
    if (open == std::string::npos) return false;
    int depth = 0;
    size_t close = std::string::npos;
    for (size_t i = open; i < sql.size(); ++i)
    {
        if (sql[i] == '(') ++depth;
        if (sql[i] == ')' && --depth == 0) { close = i; break; }
    }
    if (close == std::string::npos) return false;
    t.head = sql.substr(0, open + 1);
    t.tail = sql.substr(close);
    std::string body = sql.substr(open + 1, close - open - 1), cur;
    depth = 0;
    for (char c : body)
    {
        if (c == '(') ++depth;
        if (c == ')') --depth;
        if (c == ',' && depth == 0) { t.items.push_back(cur); cur.clear(); }
        else cur += c;
    }
    if (!cur.empty()) t.items.push_back(cur);
    for (size_t i = 0; i < t.items.size(); ++i)
    {
        std::string s = t.items[i];
        size_t b = s.find_first_not_of(" \t\n");
        std::string first = b == std::string::npos ? "" : s.substr(b, s.find_first_of(" \t\n(", b) - b);
        std::string up;
        for (char c : first) up += (char)toupper((unsigned char)c);
        if (up == "PRIMARY" || up == "FOREIGN" || up == "UNIQUE" || up == "CONSTRAINT" || up == "CHECK") continue;
        t.col_idx.push_back(i);
    }
    return true;
}
std::string join_table(const TableDef& t)
{
    std::string s = t.head;
    for (size_t i = 0; i < t.items.size(); ++i) s += (i ? "," : "") + t.items[i];
    return s + t.tail;
}
// column definition -> (name token as written, rest)
void split_col(const std::string& def, std::string& lead, std::string& name, std::string& rest)
{
    size_t b = def.find_first_not_of(" \t\n");
    lead = def.substr(0, b);
    size_t e;
    if (def[b] == '[') e = def.find(']', b) + 1;
    else if (def[b] == '"') e = def.find('"', b + 1) + 1;
    else if (def[b] == '`') e = def.find('`', b + 1) + 1;
    else e = def.find_first_of(" \t\n", b);
    if (e == std::string::npos || e == 0) e = def.size();
    name = def.substr(b, e - b);
    rest = def.substr(e);
}
std::string ireplace_first(const std::string& s, const std::string& what, const std::string& with, bool* done)
{
    std::string up = s, w = what;
    for (auto& c : up) c = (char)toupper((unsigned char)c);
    for (auto& c : w) c = (char)toupper((unsigned char)c);
    auto p = up.find(w);
    *done = p != std::string::npos;
    if (!*done) return s;
    return s.substr(0, p) + with + s.substr(p + what.size());
}

struct Mutant
{
    std::string desc, kind;     // kind = stable class name used in the violation key
    std::vector<Obj> objs;
    bool touches_information = false;
};

void column_mutants(const std::vector<Obj>& base, size_t oi, std::vector<Mutant>& out)
{
    TableDef t;
    if (!parse_table(base[oi].sql, t)) return;
    const std::string& tn = base[oi].name;
    auto emit = [&](const TableDef& nt, const std::string& kind, const std::string& desc) {
        Mutant m;
        m.kind = kind;
        m.desc = desc;
        m.objs = base;
        m.objs[oi].sql = join_table(nt);
        m.touches_information = tn == "Information";
        out.push_back(m);
    };
    for (size_t ci : t.col_idx)
    {
        std::string lead, name, rest;
        split_col(t.items[ci], lead, name, rest);
        std::string plain = name;
        plain.erase(std::remove_if(plain.begin(), plain.end(), [](char c) { return c == '[' || c == ']' || c == '"' || c == '`'; }), plain.end());
        const std::string where = tn + "." + plain;
        {   // drop column
            TableDef nt = t;
            nt.items.erase(nt.items.begin() + (long)ci);
            if (nt.items.size()) emit(nt, "column_dropped", "drop column " + where);
        }
        {   // rename column
            TableDef nt = t;
            nt.items[ci] = lead + "[" + plain + "_x]" + rest;
            emit(nt, "column_renamed", "rename column " + where);
        }
        {   // change declared type
            TableDef nt = t;
            std::string r2 = rest;
            size_t b = r2.find_first_not_of(" \t\n");
            std::string ty = b == std::string::npos ? "" : r2.substr(b, r2.find_first_of(" \t\n,(", b) - b), up;
            for (char c : ty) up += (char)toupper((unsigned char)c);
            static const std::set<std::string> known = {"INTEGER", "TEXT", "REAL", "BLOB", "NUMERIC", "BOOLEAN", "DATETIME", "INT"};
            if (known.count(up)) r2 = r2.substr(0, b) + (up == "TEXT" ? "INTEGER" : "TEXT") + r2.substr(b + ty.size());
            else r2 = " TEXT" + r2;
            nt.items[ci] = lead + name + r2;
            emit(nt, "column_type_changed", "change type of " + where + " (was " + (ty.empty() ? "none" : ty) + ")");
        }
        {   // toggle NOT NULL
            TableDef nt = t;
            bool had = false;
            std::string r2 = ireplace_first(rest, "NOT NULL", "", &had);
            if (!had) r2 = rest + " NOT NULL";
            nt.items[ci] = lead + name + r2;
            emit(nt, had ? "column_not_null_removed" : "column_not_null_added", std::string(had ? "remove NOT NULL from " : "add NOT NULL to ") + where);
        }
        {   // add / change DEFAULT
            TableDef nt = t;
            bool had = false;
            std::string up = rest;
            for (auto& c : up) c = (char)toupper((unsigned char)c);
            auto p = up.find("DEFAULT");
            std::string r2;
            if (p != std::string::npos)
            {
                had = true;
                size_t vb = rest.find_first_not_of(" \t\n", p + 7), ve = rest.find_first_of(" \t\n,", vb);
                r2 = rest.substr(0, vb) + "7" + (ve == std::string::npos ? "" : rest.substr(ve));
            }
            else
                r2 = rest + " DEFAULT 7";
            nt.items[ci] = lead + name + r2;
            emit(nt, had ? "column_default_changed" : "column_default_added", std::string(had ? "change DEFAULT of " : "add DEFAULT to ") + where);
        }
        {   // toggle primary-key membership
            TableDef nt = t;
            bool had = false;
            std::string r2 = ireplace_first(rest, "PRIMARY KEY AUTOINCREMENT", "", &had);
            if (!had) r2 = ireplace_first(rest, "PRIMARY KEY", "", &had);
            bool table_pk = false;
            for (size_t i = 0; i < t.items.size(); ++i)
            {
                std::string up = t.items[i];
                for (auto& c : up) c = (char)toupper((unsigned char)c);
                if (std::find(t.col_idx.begin(), t.col_idx.end(), i) == t.col_idx.end() && up.find("PRIMARY KEY") != std::string::npos) table_pk = true;
            }
            if (had) { nt.items[ci] = lead + name + r2; emit(nt, "column_pk_removed", "remove PRIMARY KEY from " + where); }
            else if (!table_pk)
            {
                bool any_col_pk = false;
                for (size_t cj : t.col_idx)
                {
                    std::string up = t.items[cj];
                    for (auto& c : up) c = (char)toupper((unsigned char)c);
                    if (up.find("PRIMARY KEY") != std::string::npos) any_col_pk = true;
                }
                if (!any_col_pk) { nt.items[ci] = lead + name + rest + " PRIMARY KEY"; emit(nt, "column_pk_added", "make " + where + " the PRIMARY KEY"); }
            }
        }
    }
    {   // add a column
        TableDef nt = t;
        nt.items.insert(nt.items.begin() + (long)(t.col_idx.empty() ? 0 : t.col_idx.back() + 1), " [zzExtra] INTEGER");
        emit(nt, "column_added", "add column to " + tn);
        // and one whose name sorts before every other column (validators walk the columns in name order)
        TableDef nf = t;
        nf.items.insert(nf.items.begin() + (long)(t.col_idx.empty() ? 0 : t.col_idx.back() + 1), " [AaExtra] INTEGER");
        emit(nf, "column_added_first_by_name", "add column sorting first to " + tn);
    }
    // table-level PRIMARY KEY constraint: drop it / extend it
    for (size_t i = 0; i < t.items.size(); ++i)
    {
        if (std::find(t.col_idx.begin(), t.col_idx.end(), i) != t.col_idx.end()) continue;
        std::string up = t.items[i];
        for (auto& c : up) c = (char)toupper((unsigned char)c);
        if (up.find("PRIMARY KEY") == std::string::npos) continue;
        TableDef nt = t;
        nt.items.erase(nt.items.begin() + (long)i);
        emit(nt, "table_pk_removed", "remove the PRIMARY KEY constraint of " + tn);
    }
}

std::vector<Mutant> make_mutants(const std::vector<Obj>& base, bool column_level)
{
    std::vector<Mutant> out;
    auto dependents_removed = [&](const std::vector<Obj>& objs, const std::string& name) {
        std::vector<Obj> r;
        for (auto& o : objs)
            if (!(o.name == name) && !(o.tbl == name && (o.type == "index" || o.type == "trigger"))) r.push_back(o);
        return r;
    };
    for (size_t i = 0; i < base.size(); ++i)
    {
        const Obj& o = base[i];
        if (o.type == "trigger") continue;  // triggers are outside the statement
        {
            Mutant m;
            m.kind = o.type + "_dropped";
            m.desc = "drop " + o.type + " " + o.name;
            m.objs = o.type == "index" ? [&] { auto v = base; v.erase(v.begin() + (long)i); return v; }() : dependents_removed(base, o.name);
            m.touches_information = o.name == "Information";
            out.push_back(m);
        }
        {
            // rename: the object's own statement gets the new name; indices / triggers on a renamed table or view are dropped
            Mutant m;
            m.kind = o.type + "_renamed";
            m.desc = "rename " + o.type + " " + o.name;
            m.objs = o.type == "index" ? base : dependents_removed(base, o.name);
            Obj n = o;
            bool done = false;
            n.sql = ireplace_first(o.sql, o.name, o.name + "_x", &done);
            n.name = o.name + "_x";
            if (!done) continue;
            if (o.type == "index") m.objs[i] = n;
            else
            {
                size_t pos = 0;
                for (size_t k = 0; k < i; ++k)
                    if (!(base[k].name == o.name) && !(base[k].tbl == o.name && (base[k].type == "index" || base[k].type == "trigger"))) ++pos;
                m.objs.insert(m.objs.begin() + (long)pos, n);
            }
            m.touches_information = o.name == "Information";
            out.push_back(m);
        }
        if (o.type == "index")
        {
            bool done = false;
            Mutant m;
            m.objs = base;
            std::string up = o.sql;
            for (auto& c : up) c = (char)toupper((unsigned char)c);
            if (up.find("CREATE UNIQUE INDEX") != std::string::npos) { m.objs[i].sql = ireplace_first(o.sql, "CREATE UNIQUE INDEX", "CREATE INDEX", &done); m.kind = "index_unique_removed"; }
            else { m.objs[i].sql = ireplace_first(o.sql, "CREATE INDEX", "CREATE UNIQUE INDEX", &done); m.kind = "index_unique_added"; }
            m.desc = "toggle UNIQUE of index " + o.name;
            if (done) out.push_back(m);
            // indexed columns: remove one / add one / reorder
            // the indexed-column list: first parenthesis after the table name up to its match (expression indices nest parentheses)
            size_t open = o.sql.find('('), close = std::string::npos;
            {
                int depth = 0;
                for (size_t p2 = open; open != std::string::npos && p2 < o.sql.size(); ++p2)
                {
                    if (o.sql[p2] == '(') ++depth;
                    if (o.sql[p2] == ')' && --depth == 0) { close = p2; break; }
                }
            }
            if (open != std::string::npos && close != std::string::npos && close > open)
            {
                std::vector<std::string> cols;
                {
                    std::string cur;
                    int depth = 0;
                    for (char ch : o.sql.substr(open + 1, close - open - 1))
                    {
                        if (ch == '(') ++depth;
                        if (ch == ')') --depth;
                        if (ch == ',' && depth == 0) { cols.push_back(cur); cur.clear(); }
                        else cur += ch;
                    }
                    cols.push_back(cur);
                }
                // find another column of the table to add
                std::string other;
                for (auto& b : base)
                    if (b.type == "table" && b.name == o.tbl)
                    {
                        TableDef t;
                        if (parse_table(b.sql, t))
                            for (size_t ci : t.col_idx)
                            {
                                std::string lead, name, rest;
                                split_col(t.items[ci], lead, name, rest);
                                std::string plain = name;
                                plain.erase(std::remove_if(plain.begin(), plain.end(), [](char c) { return c == '[' || c == ']' || c == '"' || c == '`'; }), plain.end());
                                if (o.sql.substr(open).find(plain) == std::string::npos) { other = plain; break; }
                            }
                    }
                auto rebuild = [&](const std::vector<std::string>& c2) { return o.sql.substr(0, open + 1) + join(c2, ",") + o.sql.substr(close); };
                {
                    // the same index made partial (an index already partial loses its WHERE clause instead)
                    Mutant p2;
                    p2.objs = base;
                    std::string tail = o.sql.substr(close + 1), tail_up = tail;
                    for (auto& c : tail_up) c = (char)toupper((unsigned char)c);
                    if (tail_up.find("WHERE") != std::string::npos) { p2.objs[i].sql = o.sql.substr(0, close + 1); p2.kind = "index_partial_removed"; }
                    else { p2.objs[i].sql = o.sql.substr(0, close + 1) + " WHERE rowid > 0"; p2.kind = "index_partial_added"; }
                    p2.desc = "toggle the WHERE clause of index " + o.name;
                    out.push_back(p2);
                }
                if (!other.empty())
                {
                    Mutant a2;
                    a2.objs = base;
                    auto c2 = cols;
                    c2.push_back(" " + other + " ");
                    a2.objs[i].sql = rebuild(c2);
                    a2.kind = "index_column_added";
                    a2.desc = "add column " + other + " to index " + o.name;
                    out.push_back(a2);
                    Mutant r2;
                    r2.objs = base;
                    auto c3 = cols;
                    c3[0] = " " + other + " ";
                    r2.objs[i].sql = rebuild(c3);
                    r2.kind = "index_column_replaced";
                    r2.desc = "replace first column of index " + o.name + " by " + other;
                    out.push_back(r2);
                }
                if (cols.size() >= 2)
                {
                    Mutant d2;
                    d2.objs = base;
                    auto c2 = cols;
                    c2.pop_back();
                    d2.objs[i].sql = rebuild(c2);
                    d2.kind = "index_column_removed";
                    d2.desc = "remove last column of index " + o.name;
                    out.push_back(d2);
                    Mutant s2;
                    s2.objs = base;
                    auto c3 = cols;
                    std::swap(c3[0], c3[1]);
                    s2.objs[i].sql = rebuild(c3);
                    s2.kind = "index_columns_reordered";
                    s2.desc = "swap first two columns of index " + o.name;
                    out.push_back(s2);
                }
            }
        }
        if (o.type == "table")
        {
            Mutant m;
            m.kind = "index_added";
            m.desc = "add an index on table " + o.name;
            m.objs = base;
            TableDef t;
            if (parse_table(o.sql, t) && !t.col_idx.empty())
            {
                std::string lead, name, rest;
                split_col(t.items[t.col_idx[0]], lead, name, rest);
                m.objs.push_back({"index", "zz_extra_index_" + o.name, o.name, "CREATE INDEX zz_extra_index_" + o.name + " ON " + o.name + " (" + name + ")"});
                out.push_back(m);
            }
            if (column_level) column_mutants(base, i, out);
        }
    }
    {
        Mutant m;
        m.kind = "table_added";
        m.desc = "add a table";
        m.objs = base;
        m.objs.push_back({"table", "ZzExtraTable", "ZzExtraTable", "CREATE TABLE ZzExtraTable (a INTEGER)"});
        out.push_back(m);
        Mutant v;
        v.kind = "view_added";
        v.desc = "add a view";
        v.objs = base;
        v.objs.push_back({"view", "ZzExtraView", "ZzExtraView", "CREATE VIEW ZzExtraView AS SELECT 1 AS one"});
        out.push_back(v);
    }
    return out;
}

// build a database file from DDL; statements that no longer compile are skipped (counted)
int hydrate(const std::string& file, const std::vector<Obj>& objs, const std::string& pristine, std::string* err_out)
{
    unlink(file.c_str());
    sqlite3* db = nullptr;
    if (sqlite3_open(file.c_str(), &db) != SQLITE_OK) throw std::runtime_error("cannot create " + file);
    int skipped = 0;
    sqlite3_exec(db, "PRAGMA foreign_keys=OFF; BEGIN", nullptr, nullptr, nullptr);
    for (auto& o : objs)
    {
        char* err = nullptr;
        if (sqlite3_exec(db, o.sql.c_str(), nullptr, nullptr, &err) != SQLITE_OK)
        {
            ++skipped;
            if (err_out && err_out->empty()) *err_out = o.name + ": " + (err ? err : "?");
        }
        sqlite3_free(err);
    }
    sqlite3_exec(db, "COMMIT", nullptr, nullptr, nullptr);
    // version row (and other default rows) from the pristine file, column by column where the names still exist
    std::string att = "ATTACH '" + pristine + "' AS orig";
    sqlite3_exec(db, att.c_str(), nullptr, nullptr, nullptr);
    for (const char* table : {"Information"})
    {
        std::vector<std::string> mine, theirs;
        for (auto& c : sfp::q(db, std::string("PRAGMA main.table_info('") + table + "')")) mine.push_back(c[1]);
        for (auto& c : sfp::q(db, std::string("PRAGMA orig.table_info('") + table + "')")) theirs.push_back(c[1]);
        std::vector<std::string> common;
        for (auto& c : mine)
            if (std::find(theirs.begin(), theirs.end(), c) != theirs.end()) common.push_back("[" + c + "]");
        if (common.empty()) continue;
        std::string sql = std::string("INSERT OR REPLACE INTO main.") + table + " (" + join(common, ",") + ") SELECT " + join(common, ",") + " FROM orig." + table;
        sqlite3_exec(db, sql.c_str(), nullptr, nullptr, nullptr);
    }
    sqlite3_exec(db, "DETACH orig", nullptr, nullptr, nullptr);
    sqlite3_close(db);
    return skipped;
}
// The same replacement of the schema objects, but through a second connection on the *existing* file while the library keeps
// its own connection open (schema cookie and change counter move as SQLite prescribes, so the library's connection sees it).
bool hydrate_in_place(const std::string& file, const std::vector<Obj>& objs)
{
    sqlite3* db = nullptr;
    if (sqlite3_open_v2(file.c_str(), &db, SQLITE_OPEN_READWRITE, nullptr) != SQLITE_OK) { sqlite3_close(db); return false; }
    sqlite3_busy_timeout(db, 2000);
    bool ok = sqlite3_exec(db, "PRAGMA foreign_keys=OFF; BEGIN IMMEDIATE; CREATE TEMP TABLE keep_information AS SELECT * FROM main.Information", nullptr, nullptr, nullptr) == SQLITE_OK;
    std::vector<std::string> theirs;
    for (auto& c : sfp::q(db, "PRAGMA temp.table_info('keep_information')")) theirs.push_back(c[1]);
    for (const char* type : {"trigger", "view", "table"})
        for (auto& r : sfp::q(db, std::string("SELECT name FROM main.sqlite_master WHERE type='") + type + "' AND name NOT LIKE 'sqlite_%'"))
            sqlite3_exec(db, (std::string("DROP ") + type + " IF EXISTS main.[" + r[0] + "]").c_str(), nullptr, nullptr, nullptr);
    for (auto& o : objs) sqlite3_exec(db, o.sql.c_str(), nullptr, nullptr, nullptr);
    std::vector<std::string> mine, common;
    for (auto& c : sfp::q(db, "PRAGMA main.table_info('Information')")) mine.push_back(c[1]);
    for (auto& c : mine)
        if (std::find(theirs.begin(), theirs.end(), c) != theirs.end()) common.push_back("[" + c + "]");
    if (!common.empty())
        sqlite3_exec(db, ("INSERT OR REPLACE INTO main.Information (" + join(common, ",") + ") SELECT " + join(common, ",") + " FROM temp.keep_information").c_str(), nullptr, nullptr, nullptr);
    ok = sqlite3_exec(db, "COMMIT", nullptr, nullptr, nullptr) == SQLITE_OK && ok;
    sqlite3_close(db);
    return ok;
}
std::map<std::string, std::string> file_fp(const std::string& file)
{
    sqlite3* db = nullptr;
    sqlite3_open_v2(file.c_str(), &db, SQLITE_OPEN_READONLY, nullptr);
    auto fp = sfp::fingerprint(db, "main");
    sqlite3_close(db);
    return fp;
}

struct Task
{
    eng::engine_schema schema;
    int file;  // 0 = m.db, 1 = p.db (1.x only)
    bool column_level;
};

int run(const Options& o)
{
    Evidence ev(o, "model_checking");
    Reporter rep(o.property, build_variant());
    Agg total;
    const double t0 = now_s();
    std::vector<Task> tasks;
    std::set<std::string> deep = {"1.6.0", "1.18.0-os", "2.18.0", "2.21.2"};
    auto schemas = all_schemas();
    if (const char* e = getenv("VX_SCHEMAS"))
    {
        schemas.clear();
        for (auto& n : split(e, ','))
            if (auto s = schema_by_name(n)) schemas.push_back(*s);
    }
    for (auto s : schemas)
        for (int f = 0; f < (is_v2(s) ? 1 : 2); ++f) tasks.push_back({s, f, !o.quick() || deep.count(schema_name(s)) > 0});
    const double deadline = t0 + (o.deadline_s > 0 ? o.deadline_s : (o.quick() ? 280 : 3000));
    bool dl = false;
    int64_t only_idx = -1;
    if (!o.only.empty())
    {
        // "<schema>|<file>|<mutant index>"
        auto parts = split(o.only, '|');
        tasks = {Task{*schema_by_name(parts[0]), atoi(parts[1].c_str()), true}};
        only_idx = atoll(parts[2].c_str());
    }
    g_substep_timeout_s = 60;
    auto res = run_pool_sub(
        tasks.size(), o.jobs, 3600,
        [&](size_t ti, int64_t from, Emitter& em, Sub& sub) {
            Agg a;
            a.live = &em;
            const Task& t = tasks[ti];
            const std::string sn = schema_name(t.schema);
            const bool v2 = is_v2(t.schema);
            const std::string dir = scratch_dir() + "/c17." + std::to_string(getpid()) + "." + std::to_string(ti);
            const std::string pristine_dir = dir + ".orig";
            { World w(t.schema, pristine_dir, 0); }
            const std::string rel = v2 ? "/Database2/m.db" : (t.file == 0 ? "/m.db" : "/p.db");
            const std::string pristine = pristine_dir + rel;
            auto base = read_ddl(pristine);
            auto base_fp = file_fp(pristine);
            // accepting side: the pristine library and the library re-hydrated from its own unmutated DDL both pass
            if (from == 0)
            {
                if (system(("rm -rf '" + dir + "' && cp -r '" + pristine_dir + "' '" + dir + "'").c_str())) {}
                std::string herr;
                int skipped = hydrate(dir + rel, base, pristine, &herr);
                a.count("evaluations");
                try
                {
                    auto db = eng::load_database(dir);
                    db.verify();
                    if (skipped) a.violation(sn + "|harness|rehydrate_skipped", "re-hydrating the unmutated DDL skipped " + std::to_string(skipped) + " statements: " + herr, sn + "|" + std::to_string(t.file) + "|-1");
                    else a.count("validated");
                }
                catch (const std::exception& e)
                {
                    a.violation(sn + "|accepting|rehydrated_original_rejected", "[" + sn + "] a library rebuilt from the unmutated DDL of a created library is rejected: " + e.what(), sn + "|" + std::to_string(t.file) + "|-1");
                }
            }
            auto mutants = make_mutants(base, t.column_level);
            a.count("mutants_generated", (long long)mutants.size());
            for (size_t k = (size_t)std::max<int64_t>(from, 0); k < mutants.size(); ++k)
            {
                if (only_idx >= 0 && (int64_t)k != only_idx) continue;
                const Mutant& m = mutants[k];
                sub.at((int64_t)k);
                const std::string cid = sn + "|" + std::to_string(t.file) + "|" + std::to_string(k);
                sub.label(cid + " " + m.desc);
                if (system(("rm -rf '" + dir + "' && cp -r '" + pristine_dir + "' '" + dir + "'").c_str())) {}
                hydrate(dir + rel, m.objs, pristine, nullptr);
                a.count("evaluations");
                if (file_fp(dir + rel) == base_fp) { a.count("outcome.equivalent_mutant_skipped"); continue; }
                a.seen("mutants", sn + rel + m.desc);
                std::string outcome, what;
                try
                {
                    auto db = eng::load_database(dir);
                    try
                    {
                        db.verify();
                        outcome = "accepted";
                    }
                    catch (const djinterop::database_inconsistency& e) { outcome = "inconsistency"; what = e.what(); }
                    catch (const std::exception& e) { outcome = "other_exception_in_verify"; what = e.what(); }
                }
                catch (const djinterop::database_inconsistency& e) { outcome = "inconsistency"; what = e.what(); }
                catch (const std::exception& e) { outcome = m.touches_information ? "inconsistency" : "other_exception_in_load"; what = e.what(); }
                a.count("outcome." + outcome);
                if (only_idx >= 0) printf("  mutant %zu: %s -> %s %s\n", k, m.desc.c_str(), outcome.c_str(), what.c_str());
                const std::string which = v2 ? "m.db" : (t.file == 0 ? "m.db" : "p.db");
                if (outcome == "accepted")
                    a.violation((v2 ? "v2|" : "v1|") + m.kind + "|accepted", "[" + sn + ", " + which + "] verify() accepts a library in which: " + m.desc, cid);
                else if (outcome != "inconsistency")
                    a.violation((v2 ? "v2|" : "v1|") + m.kind + "|" + outcome, "[" + sn + ", " + which + "] " + m.desc + ": reported as " + what + " instead of database_inconsistency", cid);
                else
                    a.count("validated");
                // the same deviation appearing *after* this handle has already verified the library once: verify() judges the
                // database as it is now, not as it was (every mutant that touches neither the version row nor the file set)
                if (!m.touches_information)
                {
                    auto mutated_fp = file_fp(dir + rel);
                    if (system(("rm -rf '" + dir + "' && cp -r '" + pristine_dir + "' '" + dir + "'").c_str())) {}
                    std::string outcome2, what2;
                    try
                    {
                        auto db = eng::load_database(dir);
                        db.verify();
                        if (!hydrate_in_place(dir + rel, m.objs) || file_fp(dir + rel) != mutated_fp) outcome2 = "harness_in_place_mismatch";
                        else
                        {
                            try { db.verify(); outcome2 = "accepted"; }
                            catch (const djinterop::database_inconsistency&) { outcome2 = "inconsistency"; }
                            catch (const std::exception& e) { outcome2 = "other_exception_in_verify"; what2 = e.what(); }
                        }
                    }
                    catch (const std::exception& e) { outcome2 = "pristine_rejected"; what2 = e.what(); }
                    a.count("reverify." + outcome2);
                    if (only_idx >= 0) printf("  mutant %zu applied after a first verify(): %s %s\n", k, outcome2.c_str(), what2.c_str());
                    if (outcome2 == "accepted")
                        a.violation((v2 ? "v2|" : "v1|") + m.kind + "|accepted_after_earlier_verify", "[" + sn + ", " + which + "] a handle that has verified the library once accepts it after: " + m.desc, cid);
                    else if (outcome2 == "other_exception_in_verify" || outcome2 == "pristine_rejected")
                        a.violation((v2 ? "v2|" : "v1|") + m.kind + "|reverify_" + outcome2, "[" + sn + ", " + which + "] " + m.desc + " (applied after a first verify()): " + what2, cid);
                }
                if ((k & 31) == 31) a.flush(em);
            }
            if (system(("rm -rf '" + dir + "' '" + pristine_dir + "'").c_str())) {}
            Json s = Json::object();
            s["schema"] = sn;
            s["file"] = v2 ? "Database2/m.db" : (t.file == 0 ? "m.db" : "p.db");
            s["mutants"] = (long long)mutants.size();
            if (!mutants.empty()) s["example"] = mutants[mutants.size() / 2].desc;
            a.sample(s);
            a.flush(em);
        },
        nullptr, deadline, &dl, 10000);
    size_t done = 0;
    for (size_t i = 0; i < res.size(); ++i)
    {
        for (auto& l : res[i].lines) total.merge_line(l, rep);
        for (auto& sc : res[i].subcrashes) rep.add(Violation{std::string(is_v2(tasks[i].schema) ? "v2" : "v1") + "|crash:" + sc.kind + "@" + sc.frame, "verify()/load died on a mutated schema: " + sc.kind + " in " + sc.frame, sc.label.substr(0, sc.label.find(' ')), Json(sc.head)});
        if (res[i].status != CaseResult::Ok) rep.add(Violation{"crash:" + res[i].crash_kind, "task died (" + res[i].crash_kind + ") in " + res[i].crash_frame, schema_name(tasks[i].schema), Json(res[i].crash_head)});
        else if (res[i].crash_kind != "not-run") ++done;
    }
    // accepting side, part 2: every reference dump passes verify() (hydrated by the library's own create_database_from_scripts)
    long long refs_ok = 0, refs_total = 0;
    if (o.only.empty())
    {
        auto r = run_isolated(600, [&](Emitter& em) {
            Agg a;
            std::string root = repo_root() + "/testdata/ref/engine";
            int n = 0;
            for (const char* fam : {"desktop", "ep", "sc5000"})
            {
                std::string cmd = "ls '" + root + "/" + fam + "'";
                FILE* p = popen(cmd.c_str(), "r");
                char buf[256];
                std::vector<std::string> names;
                while (p && fgets(buf, sizeof buf, p)) { std::string s = buf; while (!s.empty() && s.back() == '\n') s.pop_back(); names.push_back(s); }
                if (p) pclose(p);
                for (auto& nm : names)
                {
                    std::string src = root + "/" + fam + "/" + nm, dst = scratch_dir() + "/c17ref." + std::to_string(n++);
                    a.count("reference_libraries");
                    mkdir(dst.c_str(), 0700);
                    try
                    {
                        eng::engine_schema ls{};
                        auto db = eng::create_database_from_scripts(dst, src, ls);
                        db.verify();
                        a.count("reference_libraries_accepted");
                    }
                    catch (const std::exception& e)
                    {
                        a.violation("accepting|reference_rejected", std::string("reference library ") + fam + "/" + nm + " is rejected: " + e.what(), std::string(fam) + "/" + nm);
                    }
                    if (system(("rm -rf '" + dst + "'").c_str())) {}
                }
            }
            a.flush(em);
        });
        for (auto& l : r.lines) total.merge_line(l, rep);
        refs_ok = total.get("reference_libraries_accepted");
        refs_total = total.get("reference_libraries");
    }
    rep.set_counts(total.vcount);
    const bool exhaustive = !dl && done == tasks.size();
    auto& c = ev.cov();
    c["evaluations"] = total.get("evaluations") + refs_total;
    c["distinct_nontrivial"] = total.ndistinct("mutants");
    c["states"] = total.ndistinct("mutants");
    c["transitions"] = total.get("evaluations");
    c["traces_validated_against_impl"] = total.get("validated") + refs_ok + total.get("reverify.inconsistency");
    c["rule"] =
        "For each schema version (and, for 1.x, separately for m.db and p.db) the DDL of a freshly created on-disk library is read from sqlite_master and every single-element mutation is generated "
        "mechanically: for every table, view and index: drop, rename, add a new one; for every index: toggle UNIQUE, toggle a WHERE clause (partial index), add / replace / remove / swap an indexed column; for every column of every "
        "table: drop, rename, change declared type, toggle NOT NULL, add or change DEFAULT, toggle PRIMARY KEY membership, plus add a column (one whose name sorts last, one whose name sorts first) and remove a table-level PRIMARY KEY constraint "
        "(quick tier: column-level mutants on 1.6.0, 1.18.0-os, 2.18.0, 2.21.2 only; thorough: all 18). Each mutant is materialised by re-hydrating the database file from the mutated DDL "
        "(statements that no longer compile are dropped), placed in the proper layout, loaded and verified. A mutant whose independent structural fingerprint (C12's) equals the original's is "
        "equivalent and skipped. Rejecting side: every other mutant must end in database_inconsistency. Accepting side: the created library, a library re-hydrated from its unmutated DDL, and all "
        "reference libraries under testdata/ref (hydrated by create_database_from_scripts) must pass. Triggers and view bodies are outside the statement and are not mutated. "
        "Second mode, same mutants: the pristine library is loaded and verified first (must pass), the mutation is then applied to the open library's file through a second connection "
        "(drop and re-create in one transaction; the result must have the same fingerprint as the re-hydrated file, otherwise no verdict is taken and the case is counted as a harness "
        "mismatch), and the same handle's second verify() must report database_inconsistency.";
    c["exhaustive"] = exhaustive;
    Json b = Json::object();
    b["tasks_total"] = (long long)tasks.size();
    b["tasks_completed"] = (long long)done;
    b["deadline_hit"] = dl;
    b["reference_libraries"] = refs_total;
    c["bounds"] = b;
    c["counters"] = total.counters_json();
    c["distinct_outcomes"] = total.counters_json("outcome.");
    for (auto& s : total.samples) ev.sample(s);
    if (total.samples.empty()) ev.sample(Json("(none)"));
    for (auto& h : total.harness_errors) fprintf(stderr, "harness error: %s\n", h.c_str());
    int bad = rep.finish();
    if (!total.harness_errors.empty()) bad = -1;
    ev.write(bad < 0 ? 0 : bad, rep.known_hits());
    printf("C17 %s: reverify: rejected=%lld accepted=%lld harness_mismatch=%lld\n", o.tier.c_str(), total.get("reverify.inconsistency"), total.get("reverify.accepted"), total.get("reverify.harness_in_place_mismatch"));
    printf("C17 %s: mutants=%lld rejected=%lld accepted=%lld equivalent=%lld refs=%lld/%lld tasks=%zu/%zu exhaustive=%d wall=%.1fs\n", o.tier.c_str(), total.ndistinct("mutants"), total.get("outcome.inconsistency"),
           total.get("outcome.accepted"), total.get("outcome.equivalent_mutant_skipped"), refs_ok, refs_total, done, tasks.size(), (int)exhaustive, now_s() - t0);
    return bad;
}
Registrar reg({"C17", "san", "san", run});
}  // namespace
