// Pool scaffolding shared by the codec checks: enumerate "base + <= k deviations" values of every codec in
// forked workers (crash attribution per value), call a per-value oracle, merge results.
#pragma once
#include "codecs.hpp"
#include "common/agg.hpp"

namespace cod
{
using namespace vx;

struct CodecRun
{
    int k = 1;
    bool wide = false;
    int stripes = 4;
    int timeout_s = 120;
    double deadline_abs = 0;
    // results
    size_t tasks = 0, tasks_done = 0;
    bool deadline_hit = false;
};

template <class T>
inline std::vector<int> field_sizes(bool wide)
{
    Chooser probe;
    probe.wide = wide;
    (void)T::make(probe);
    return probe.sizes;
}
inline std::string codec_name(int idx)
{
    std::string n;
    with_codec(idx, [&](auto tag) { n = decltype(tag)::type::name; });
    return n;
}
inline int codec_index(const std::string& name)
{
    for (int i = 0; i < NUM_CODECS; ++i)
        if (codec_name(i) == name) return i;
    return -1;
}
inline std::string make_case_id(const std::string& codec, const std::vector<int>& ch, bool wide) { return codec + ":" + choice_str(ch) + (wide ? ":w" : ":n"); }

// f(tag, agg, value, case_id)
template <class F>
inline void run_codec_values(const Options& o, CodecRun& cfg, Reporter& rep, Agg& total, F f)
{
    struct Task { int codec, stripe; };
    std::vector<Task> tasks;
    for (int c = 0; c < NUM_CODECS; ++c)
        for (int s = 0; s < cfg.stripes; ++s) tasks.push_back({c, s});
    cfg.tasks = tasks.size();
    auto res = run_pool_sub(
        tasks.size(), o.jobs, cfg.timeout_s,
        [&](size_t ti, int64_t from, Emitter& em, Sub& sub) {
            Agg a;
            a.live = &em;
            const Task t = tasks[ti];
            with_codec(t.codec, [&](auto tag) {
                using T = typename decltype(tag)::type;
                auto sizes = field_sizes<T>(cfg.wide);
                long n = 0;
                enumerate_choices(sizes, cfg.k, [&](int64_t idx, const std::vector<int>& ch) {
                    if (idx % cfg.stripes != t.stripe || idx < from) return;
                    sub.at(idx);
                    Chooser c;
                    c.wide = cfg.wide;
                    c.choice = &ch;
                    auto v = T::make(c);
                    f(tag, a, v, make_case_id(T::name, ch, cfg.wide));
                    if (++n % 256 == 0) a.flush(em);
                });
            });
            a.flush(em);
        },
        nullptr, cfg.deadline_abs, &cfg.deadline_hit);
    for (size_t i = 0; i < res.size(); ++i)
    {
        auto& r = res[i];
        std::string cname = codec_name(tasks[i].codec);
        auto choice_at = [&](int64_t want) {
            std::vector<int> out;
            with_codec(tasks[i].codec, [&](auto tag) {
                using T = typename decltype(tag)::type;
                enumerate_choices(field_sizes<T>(cfg.wide), cfg.k, [&](int64_t idx, const std::vector<int>& ch) { if (idx == want) out = ch; });
            });
            return out;
        };
        for (auto& l : r.lines) total.merge_line(l, rep);
        for (auto& sc : r.subcrashes)
        {
            total.count("crashed_values");
            rep.add(Violation{"crash:" + cname + ":" + sc.kind, cname + " died (" + sc.kind + ") in " + sc.frame, make_case_id(cname, choice_at(sc.substep), cfg.wide), Json(sc.head)});
        }
        if (r.status != CaseResult::Ok)
            rep.add(Violation{"crash:" + cname + ":" + r.crash_kind, cname + " died (" + r.crash_kind + ") in " + r.crash_frame + " [task level]", cname + ":task" + std::to_string(tasks[i].stripe), Json(r.crash_head)});
        else if (r.crash_kind != "not-run")
            ++cfg.tasks_done;
    }
}

// Replay of a single value: case id "<codec>:<choice>:<w|n>"
template <class F>
inline bool run_single_value(const std::string& case_id, Reporter& rep, Agg& total, F f)
{
    auto parts = split(case_id, ':');
    if (parts.size() < 3) return false;
    int ci = codec_index(parts[0]);
    if (ci < 0) return false;
    bool wide = parts[2] == "w";
    auto r = run_isolated(300, [&](Emitter& em) {
        Agg a;
        with_codec(ci, [&](auto tag) {
            using T = typename decltype(tag)::type;
            auto ch = parse_choice(parts[1], field_sizes<T>(wide).size());
            Chooser c;
            c.wide = wide;
            c.choice = &ch;
            auto v = T::make(c);
            f(tag, a, v, case_id);
        });
        a.flush(em);
    });
    for (auto& l : r.lines) total.merge_line(l, rep);
    if (r.status != CaseResult::Ok) rep.add(Violation{"crash:" + parts[0] + ":" + r.crash_kind, parts[0] + " died (" + r.crash_kind + ") in " + r.crash_frame, case_id, Json(r.crash_head)});
    return true;
}
}  // namespace cod
