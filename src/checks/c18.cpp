// C18 — a row written through the 2.x table API reads back as written. Shapes (I) + (S), all 7 schema-2.x versions:
//  rows   : two all-distinct base track_rows (every column of a C++ type holds a different value) with at most k column
//           deviations from per-type alphabets, written by add() and by update() over each base; get() must return them;
//  columns: every per-column setter with two values in every state reachable by at most one other setter call, on two rows;
//  also playlist_row, playlist_entity_row, information_table, and every accessor / remove on a nonexistent id.
#include <climits>

#include "codecs.hpp"
#include "common/agg.hpp"
#include "model/v2obs.hpp"

namespace
{
using namespace vx;
using namespace wm;
using namespace v2o;
using tpt = std::chrono::system_clock::time_point;
using std::chrono::seconds;

// ---------------------------------------------------------------- per-type alphabets (deviation values) and distinct base values
std::vector<int64_t> alpha(const int64_t&) { return {0, -1, 1, INT64_MIN, INT64_MAX, 1ll << 31}; }
std::vector<std::optional<int64_t>> alpha(const std::optional<int64_t>&) { return {std::nullopt, 0, -1, INT64_MIN, INT64_MAX, 1ll << 31}; }
std::vector<std::optional<int32_t>> alpha(const std::optional<int32_t>&) { return {std::nullopt, 0, -1, INT32_MIN, INT32_MAX}; }
std::vector<std::optional<double>> alpha(const std::optional<double>&) { return {std::nullopt, 0.0, -1.5, 1e15, 0.1}; }
std::vector<bool> alpha(const bool&) { return {false, true}; }
std::vector<std::string> alpha(const std::string&) { return {"", "x", std::string(300, 'y'), "\xc3\x9cn\xc3\xaf \xe2\x99\xab", "it's \"q\""}; }
std::vector<std::optional<std::string>> alpha(const std::optional<std::string>&) { return {std::nullopt, std::string(""), std::string("x"), std::string(300, 'y'), std::string("\xc3\x9cn\xc3\xaf \xe2\x99\xab")}; }
std::vector<tpt> alpha(const tpt&) { return {tpt{seconds{0}}, tpt{seconds{-86400}}, tpt{seconds{1ll << 31}}, tpt{seconds{1234567890}}}; }
std::vector<std::optional<tpt>> alpha(const std::optional<tpt>&) { return {std::nullopt, tpt{seconds{0}}, tpt{seconds{-86400}}, tpt{seconds{1ll << 31}}, tpt{seconds{1234567890}}}; }
std::vector<v2::track_data_blob> alpha(const v2::track_data_blob&) { return {v2::track_data_blob{0, 0, 0, 0, 0, 0, {}}, v2::track_data_blob{96000, 1, 23, -1, 1e15, 0.5, {std::byte{7}, std::byte{8}}}}; }
std::vector<v2::overview_waveform_data_blob> alpha(const v2::overview_waveform_data_blob&) { return {v2::overview_waveform_data_blob{0, {}, {0, 0, 0}, {}}, v2::overview_waveform_data_blob{2.5, {{1, 2, 3}, {4, 5, 6}}, {9, 9, 9}, {std::byte{1}}}}; }
std::vector<v2::beat_data_blob> alpha(const v2::beat_data_blob&) { return {v2::beat_data_blob{0, 0, 0, {}, {}, {}}, v2::beat_data_blob{48000, 77, 2, {{0.5, -4, 4, 9}}, {{1.5, 0, 8, 1}, {9.5, 8, 0, 0}}, std::vector<std::byte>(9, std::byte{0})}}; }
std::vector<v2::quick_cues_blob> alpha(const v2::quick_cues_blob&) { return {v2::quick_cues_blob{{}, 0, false, 0, {}}, v2::quick_cues_blob{{v2::quick_cue_blob{"z", 5.5, {1, 2, 3, 4}}, v2::quick_cue_blob::empty()}, 9.5, true, 8.5, {std::byte{3}}}}; }
std::vector<v2::loops_blob> alpha(const v2::loops_blob&) { return {v2::loops_blob{{}, {}}, v2::loops_blob{{v2::loop_blob{"l", 1.5, 2.5, 1, 0, {5, 6, 7, 8}}}, {std::byte{4}}}}; }

void distinct(int64_t& v, int k, int base) { v = 1000 + 97 * k + base; }
void distinct(std::optional<int64_t>& v, int k, int base) { v = 1000 + 97 * k + base; }
void distinct(std::optional<int32_t>& v, int k, int base) { v = (k % 20) + 1 + base; }
void distinct(std::optional<double>& v, int k, int base) { v = k + 0.25 + base; }
void distinct(bool& v, int k, int base) { v = ((k + base) % 2) == 0; }
void distinct(std::string& v, int k, int base) { v = "s" + std::to_string(k) + (base ? "b" : "a"); }
void distinct(std::optional<std::string>& v, int k, int base) { v = "o" + std::to_string(k) + (base ? "b" : "a"); }
void distinct(tpt& v, int k, int base) { v = tpt{seconds{1600000000 + 1000 * k + base}}; }
void distinct(std::optional<tpt>& v, int k, int base) { v = tpt{seconds{1500000000 + 1000 * k + base}}; }
void distinct(v2::track_data_blob& v, int k, int base) { v = v2::track_data_blob{44100.0 + k, 100 + base, 3, 0.1, 0.2, 0.3, {}}; }
void distinct(v2::overview_waveform_data_blob& v, int k, int base) { v = v2::overview_waveform_data_blob{1.0 + k + base, {{1, 2, 3}}, {1, 2, 3}, {}}; }
void distinct(v2::beat_data_blob& v, int k, int base) { v = v2::beat_data_blob{44100, 1000.0 + k + base, 1, {{1.0, 0, 4, 0}, {9.0, 4, 0, 0}}, {{1.0, 0, 4, 0}, {9.0, 4, 0, 0}}, {}}; }
void distinct(v2::quick_cues_blob& v, int k, int base) { v = v2::quick_cues_blob{std::vector<v2::quick_cue_blob>(8, v2::quick_cue_blob::empty()), 10.0 + k + base, false, 10.0 + k + base, {}}; }
void distinct(v2::loops_blob& v, int k, int base) { v = v2::loops_blob{std::vector<v2::loop_blob>(8, v2::loop_blob::empty()), {}}; v.loops[base].label = "k" + std::to_string(k); v.loops[base].start_sample_offset = 1; v.loops[base].end_sample_offset = 2; }

struct FieldOps
{
    std::string name;
    int nvalues;
    std::function<void(v2::track_row&, int)> put;                       // row.field = alphabet[i]
    std::function<void(v2::track_table&, int64_t, int)> set;            // table.set_field(id, alphabet[i])
    std::function<std::string(int)> text;                               // formatted alphabet[i]
};
const std::vector<FieldOps>& field_ops()
{
    static const std::vector<FieldOps> ops = [] {
        std::vector<FieldOps> v;
#define X(f)                                                                                                                     \
    {                                                                                                                            \
        FieldOps o;                                                                                                              \
        o.name = #f;                                                                                                             \
        using T = decltype(v2::track_row::f);                                                                                    \
        o.nvalues = (int)alpha(T{}).size();                                                                                      \
        o.put = [](v2::track_row& r, int i) { auto a = alpha(T{}); r.f = a[(size_t)i]; };                                        \
        o.set = [](v2::track_table& t, int64_t id, int i) { auto a = alpha(T{}); t.set_##f(id, a[(size_t)i]); };                 \
        o.text = [](int i) { auto a = alpha(T{}); return fmt(T(a[(size_t)i])); };                                                \
        v.push_back(o);                                                                                                          \
    }
        V2_TRACK_FIELDS(X)
#undef X
        return v;
    }();
    return ops;
}
v2::track_row base_row(int base)
{
    v2::track_row r{};
    r.id = v2::TRACK_ROW_ID_NONE;
    int k = 0;
#define X(f) distinct(r.f, k++, base);
    V2_TRACK_FIELDS(X)
#undef X
    r.album_art_id = 1;
    r.origin_database_uuid = base ? "origin-uuid-b" : "origin-uuid-a";
    return r;
}
bool supported(const std::string& field, eng::engine_schema s)
{
    if (field == "active_on_load_loops") return s >= eng::engine_schema::schema_2_20_1;
    if (field == "last_edit_time") return s >= eng::engine_schema::schema_2_20_3;
    return true;
}

// expected facts of get(id) after writing `row` (id = assigned id)
std::map<std::string, std::string> expected_facts(v2::track_row row, int64_t id, eng::engine_schema s, const std::string& lib_uuid)
{
    row.id = id;
    if (row.origin_track_id == 0 || row.origin_database_uuid.empty())
    {
        row.origin_track_id = id;
        row.origin_database_uuid = lib_uuid;
    }
    auto f = row_facts(row);
    f.erase("last_edit_time");  // maintained by the database
    if (!supported("active_on_load_loops", s)) f.erase("active_on_load_loops");
    return f;
}
std::string facts_diff(const std::map<std::string, std::string>& want, const std::map<std::string, std::string>& got, std::string* first_field)
{
    std::string d;
    for (auto& kv : want)
    {
        auto it = got.find(kv.first);
        if (it == got.end() || it->second != kv.second)
        {
            if (first_field && first_field->empty()) *first_field = kv.first;
            if (d.size() < 300) d += kv.first + ": wrote " + trunc(kv.second, 50) + ", read " + trunc(it == got.end() ? "(missing)" : it->second, 50) + "; ";
        }
    }
    return d;
}

struct Task
{
    eng::engine_schema schema;
    char phase;  // 'R' rows (add), 'U' rows (update), 'C' columns, 'P' playlist + entity + information + nonexistent ids
    int base;
};

void rows_phase(World& w, const Task& t, int k, int64_t from, Sub& sub, Emitter& em, Agg& a)
{
    const std::string sn = schema_name(t.schema);
    auto tt = w.lib2->track();
    // for update: a row created from the OTHER base is overwritten
    int64_t target = 0;
    if (t.phase == 'U') target = tt.add(base_row(1 - t.base));
    // a bystander row that must never change
    auto by = base_row(t.base);
    by.path = "bystander/path.mp3";
    by.origin_track_id = 424242;
    int64_t bystander = tt.add(by);
    Image img = w.save();
    const auto bystander_facts = row_facts(*tt.get(bystander));
    std::vector<int> sizes;
    for (auto& f : field_ops()) sizes.push_back(f.nvalues + 1);
    long n = 0;
    cod::enumerate_choices(sizes, k, [&](int64_t idx, const std::vector<int>& ch) {
        if (idx < from) return;
        sub.at(idx);
        const std::string cid = sn + "|" + t.phase + "|" + std::to_string(t.base) + "|" + cod::choice_str(ch);
        sub.label(cid);
        a.count("evaluations");
        v2::track_row row = base_row(t.base);
        std::string desc;
        for (size_t f = 0; f < ch.size(); ++f)
            if (ch[f]) { field_ops()[f].put(row, ch[f] - 1); desc += field_ops()[f].name + "=" + trunc(field_ops()[f].text(ch[f] - 1), 30) + " "; }
        const char* how = t.phase == 'R' ? "add" : "update";
        int64_t id = target;
        try
        {
            if (t.phase == 'R') id = tt.add(row);
            else { row.id = target; tt.update(row); }
        }
        catch (const std::exception& e)
        {
            // constraint violations (UNIQUE path / origin pair) are legitimate rejections; everything else is not
            std::string what = e.what();
            bool legit = what.find("UNIQUE") != std::string::npos || what.find("constraint") != std::string::npos;
            a.count(legit ? "outcome.rejected_by_constraint" : "outcome.rejected");
            if (!legit) a.violation("track_row|" + std::string(how) + "|rejected", "[" + sn + "] " + how + "() rejected a row {" + desc + "}: " + exname(e) + ": " + what, cid);
            w.restore(img);
            return;
        }
        a.seen("rows", cid);
        auto got = tt.get(id);
        if (!got) a.violation("track_row|" + std::string(how) + "|row_missing", "[" + sn + "] get() finds no row after " + how + "()", cid);
        else
        {
            std::string first;
            auto want = expected_facts(row, id, t.schema, w.uuid);
            std::string d = facts_diff(want, row_facts(*got), &first);
            if (!d.empty()) a.violation("track_row|" + std::string(how) + "|column_not_preserved:" + first, "[" + sn + "] " + how + "() of {" + desc + "} reads back differently: " + d, cid);
            else
            {
                // every per-column getter returns the corresponding field of the row
                auto gf = getter_facts(tt, id);
                auto rf = row_facts(*got);
                std::string bad;
                for (auto& kv : gf)
                {
                    if (!supported(kv.first, t.schema)) continue;  // a column this schema does not have: the statement says nothing about its accessors
                    if (kv.second != rf[kv.first]) bad += kv.first + ": getter " + trunc(kv.second, 40) + " vs row " + trunc(rf[kv.first], 40) + "; ";
                }
                if (!bad.empty()) a.violation("track_row|getter_differs_from_row", "[" + sn + "] after " + how + "() of {" + desc + "}: " + trunc(bad, 300), cid);
                else a.count("validated");
            }
        }
        auto bf = row_facts(*tt.get(bystander));
        if (bf != bystander_facts) a.violation("track_row|" + std::string(how) + "|bystander_changed", "[" + sn + "] another row changed", cid);
        w.restore(img);
        if (++n % 256 == 0) a.flush(em);
    });
}

void columns_phase(World& w, const Task& t, int64_t from, Sub& sub, Emitter& em, Agg& a)
{
    const std::string sn = schema_name(t.schema);
    auto tt = w.lib2->track();
    int64_t A = tt.add(base_row(0)), B = tt.add(base_row(1));
    Image img0 = w.save();
    auto& F = field_ops();
    // prior states: none, or one other setter call g(v) on row A
    int64_t step = 0;
    for (int g = -1; g < (int)F.size(); ++g)
        for (int gv = 0; gv < (g < 0 ? 1 : 2); ++gv)
        {
            bool prior_ok = true;
            Image img = img0;
            bool built = false;
            for (size_t f = 0; f < F.size(); ++f)
                for (int v = 0; v < 3; ++v)
                {
                    int64_t my = step++;
                    if (my < from) continue;
                    if (!built)
                    {
                        w.restore(img0);
                        if (g >= 0)
                        {
                            if (!supported(F[(size_t)g].name, t.schema)) prior_ok = false;
                            else
                                try { F[(size_t)g].set(tt, A, std::min(gv + 1, F[(size_t)g].nvalues - 1)); } catch (const std::exception&) { prior_ok = false; }
                        }
                        img = w.save();
                        built = true;
                    }
                    if (!prior_ok) continue;
                    sub.at(my);
                    int vi = std::min(v == 0 ? 1 : v == 1 ? F[f].nvalues - 1 : 0, F[f].nvalues - 1);  // second, last and first (absent / zero) value
                    const std::string cid = sn + "|C|" + (g < 0 ? "none" : F[(size_t)g].name + "#" + std::to_string(gv)) + "|" + F[f].name + "#" + std::to_string(vi);
                    sub.label(cid);
                    a.count("evaluations");
                    auto beforeA = row_facts(*tt.get(A)), beforeB = row_facts(*tt.get(B));
                    bool threw = false;
                    std::string what;
                    try { F[f].set(tt, A, vi); } catch (const std::exception& e) { threw = true; what = exname(e) + ": " + e.what(); }
                    if (!supported(F[f].name, t.schema))
                    {
                        // a column this schema does not have: whatever the accessor does, no stored column may change
                        auto afterA = row_facts(*tt.get(A)), afterB = row_facts(*tt.get(B));
                        afterA.erase("last_edit_time"); beforeA.erase("last_edit_time"); afterB.erase("last_edit_time"); beforeB.erase("last_edit_time");
                        afterA.erase(F[f].name); beforeA.erase(F[f].name);
                        if (afterA != beforeA || afterB != beforeB) a.violation("column|" + F[f].name + "|unsupported_column_setter_changed_row", "[" + sn + "] set_" + F[f].name + " on a schema without that column changed a stored column", cid);
                        else a.count("validated");
                    }
                    else if (threw)
                    {
                        bool legit = what.find("UNIQUE") != std::string::npos || what.find("constraint") != std::string::npos;
                        if (!legit) a.violation("column|" + F[f].name + "|setter_rejected", "[" + sn + "] set_" + F[f].name + "(" + trunc(F[f].text(vi), 40) + ") threw " + what, cid);
                    }
                    else
                    {
                        auto afterA = row_facts(*tt.get(A)), afterB = row_facts(*tt.get(B));
                        auto gf = getter_facts(tt, A);
                        const std::string want = F[f].text(vi);
                        bool ok = true;
                        bool db_maintained = F[f].name == "last_edit_time" || ((F[f].name == "origin_track_id" || F[f].name == "origin_database_uuid") && (afterA["origin_track_id"] == fmt(A) ));
                        if (!db_maintained && gf[F[f].name] != want) { ok = false; a.violation("column|" + F[f].name + "|getter_value", "[" + sn + "] get_" + F[f].name + " = " + trunc(gf[F[f].name], 60) + " after set_" + F[f].name + "(" + trunc(want, 60) + ")", cid); }
                        if (!db_maintained && afterA[F[f].name] != want) { ok = false; a.violation("column|" + F[f].name + "|row_value", "[" + sn + "] get().'" + F[f].name + "' = " + trunc(afterA[F[f].name], 60) + " after set_" + F[f].name + "(" + trunc(want, 60) + ")", cid); }
                        for (auto& kv : afterA)
                        {
                            if (kv.first == F[f].name || kv.first == "last_edit_time") continue;
                            if ((F[f].name == "origin_track_id" || F[f].name == "origin_database_uuid") && (kv.first == "origin_track_id" || kv.first == "origin_database_uuid")) continue;  // fix-up pair
                            if (beforeA[kv.first] != kv.second) { ok = false; a.violation("column|" + F[f].name + "|other_column_changed:" + kv.first, "[" + sn + "] set_" + F[f].name + " changed column " + kv.first + " from " + trunc(beforeA[kv.first], 40) + " to " + trunc(kv.second, 40), cid); }
                        }
                        afterB.erase("last_edit_time");
                        beforeB.erase("last_edit_time");
                        if (afterB != beforeB) { ok = false; a.violation("column|" + F[f].name + "|other_row_changed", "[" + sn + "] set_" + F[f].name + " on one row changed another row", cid); }
                        for (auto& kv : gf)
                            if (supported(kv.first, t.schema) && kv.first != "last_edit_time" && kv.second != afterA[kv.first]) { ok = false; a.violation("column|" + kv.first + "|getter_differs_from_row", "[" + sn + "] get_" + kv.first + " = " + trunc(kv.second, 40) + " but get() has " + trunc(afterA[kv.first], 40), cid); }
                        if (ok) a.count("validated");
                        a.seen("rows", cid);
                    }
                    w.restore(img);
                    if ((my & 255) == 255) a.flush(em);
                }
        }
}

void misc_phase(World& w, const Task& t, Agg& a)
{
    const std::string sn = schema_name(t.schema);
    auto tt = w.lib2->track();
    auto pl = w.lib2->playlist();
    auto pe = w.lib2->playlist_entity();
    auto info = w.lib2->information();
    auto must_throw = [&](const std::string& name, const std::function<void()>& f) {
        a.count("evaluations");
        try { f(); a.violation("nonexistent_id|" + name, "[" + sn + "] " + name + " on a nonexistent row did not throw", sn + "|P|" + name); }
        catch (const std::exception&) { a.count("validated"); }
    };
    // ---- nonexistent ids: every per-column accessor and remove
    int64_t ghost = 987654;
#define X(f)                                                                                            \
    if (supported(#f, t.schema))                                                                        \
    {                                                                                                   \
        must_throw("get_" #f, [&] { (void)tt.get_##f(ghost); });                                        \
        must_throw("set_" #f, [&] { auto r = base_row(0); tt.set_##f(ghost, r.f); });                   \
    }
    V2_TRACK_FIELDS(X)
#undef X
    must_throw("track_table::remove", [&] { tt.remove(ghost); });
    // whether a row exists may not be judged by what the connection did last: the same calls straight after a statement that changed
    // a row, and a remove() of an existing row straight after a statement that changed none
    {
        int64_t A = tt.add(base_row(0));
        tt.set_title(A, std::string("changed just before"));
        must_throw("track_table::remove (after a row-changing statement)", [&] { tt.remove(ghost); });
        tt.set_title(A, std::string("changed just before, again"));
        must_throw("set_title (after a row-changing statement)", [&] { tt.set_title(ghost, std::string("x")); });
        a.count("evaluations");
        if (!tt.exists(A)) a.violation("nonexistent_id|remove_of_ghost_removed_a_row", "[" + sn + "] a refused remove() of a nonexistent id removed another row", sn + "|P|remove_after_write");
        else a.count("validated");
        pe.clear(424242);  // a DELETE that matches no row
        a.count("evaluations");
        try
        {
            tt.remove(A);
            if (tt.exists(A) || tt.get(A)) a.violation("remove|row_still_there", "[" + sn + "] remove() of an existing row straight after a statement that changed no row returned normally but the row is still there", sn + "|P|remove_after_noop");
            else a.count("validated");
        }
        catch (const std::exception& e)
        {
            a.violation("remove|existing_row_refused", std::string("[") + sn + "] remove() of an existing row straight after a statement that changed no row threw: " + e.what(), sn + "|P|remove_after_noop");
        }
    }
    // (whole-row update() of a nonexistent id is not covered by the statement, which names column accessors and remove())
    {
        a.count("evaluations");
        if (tt.get(ghost) || tt.exists(ghost)) a.violation("nonexistent_id|get_or_exists", "[" + sn + "] get()/exists() report a row that does not exist", sn + "|P|get");
        else a.count("validated");
    }
    // ---- playlist rows
    std::vector<int64_t> ids;
    int n = 0;
    for (auto title : {std::string("plain"), std::string("\xc3\x9cn\xc3\xaf"), std::string(300, 'p'), std::string("it's")})
        for (bool persisted : {false, true})
            for (bool exported : {false, true})
                for (auto time : {tpt{seconds{0}}, tpt{seconds{1600000000}}, tpt{seconds{1ll << 31}}})
                {
                    int64_t parent = ids.empty() || (n % 3) ? 0 : ids[(size_t)n % ids.size()];
                    v2::playlist_row row{v2::PLAYLIST_ROW_ID_NONE, title + std::to_string(n++), parent, persisted, v2::PLAYLIST_NO_NEXT_LIST_ID, time, exported};
                    a.count("evaluations");
                    const std::string cid = sn + "|P|playlist#" + std::to_string(n);
                    try
                    {
                        int64_t id = pl.add(row);
                        ids.push_back(id);
                        auto got = pl.get(id);
                        row.id = id;
                        // a child that is persisted makes its parents persisted (trigger); nothing else is database-maintained
                        if (!got || got->title != row.title || got->parent_list_id != row.parent_list_id || got->is_persisted != row.is_persisted || got->next_list_id != 0 || got->last_edit_time != row.last_edit_time ||
                            got->is_explicitly_exported != row.is_explicitly_exported)
                            a.violation("playlist_row|add|not_preserved", "[" + sn + "] playlist add() of '" + trunc(row.title, 20) + "' reads back differently", cid);
                        else a.count("validated");
                        // update flags / time only (same title and position)
                        auto r2 = *got;
                        r2.is_explicitly_exported = !r2.is_explicitly_exported;
                        r2.last_edit_time = tpt{seconds{1234567890 + n}};
                        pl.update(r2);
                        auto g2 = pl.get(id);
                        a.count("evaluations");
                        if (!g2 || g2->is_explicitly_exported != r2.is_explicitly_exported || g2->last_edit_time != r2.last_edit_time || g2->title != r2.title)
                            a.violation("playlist_row|update|not_preserved", "[" + sn + "] playlist update() changing only isExplicitlyExported / lastEditTime is not read back", cid);
                        else a.count("validated");
                        // rename
                        r2.title = "renamed" + std::to_string(n);
                        pl.update(r2);
                        auto g3 = pl.get(id);
                        a.count("evaluations");
                        if (!g3 || g3->title != r2.title || g3->parent_list_id != r2.parent_list_id) a.violation("playlist_row|update|title_not_preserved", "[" + sn + "] playlist rename is not read back", cid);
                        else a.count("validated");
                    }
                    catch (const std::exception& e)
                    {
                        a.violation("playlist_row|rejected", "[" + sn + "] playlist add/update threw: " + exname(e) + ": " + e.what(), cid);
                    }
                }
    {
        a.count("evaluations");
        bool removed_ok = true;
        pl.remove(ids.back());
        if (pl.exists(ids.back()) || pl.get(ids.back())) removed_ok = false;
        if (!removed_ok) a.violation("playlist_row|remove", "[" + sn + "] playlist row still present after remove()", sn + "|P|remove");
        else a.count("validated");
    }
    // ---- playlist rows: an update() that also moves the row (other parent and / or other successor) takes the re-linking
    // path of the implementation; every field of the written row must still read back, for every flag combination
    {
        auto mk = [&](const std::string& title, int64_t parent) { return pl.add(v2::playlist_row{v2::PLAYLIST_ROW_ID_NONE, title, parent, false, v2::PLAYLIST_NO_NEXT_LIST_ID, tpt{seconds{5}}, false}); };
        int64_t A = mk("mvA", 0), B = mk("mvB", 0), C = mk("mvC", 0), a1 = mk("mv1", A), a2 = mk("mv2", A);
        (void)a2;
        int step = 0;
        int moved = 0;
        for (int64_t subject : {a1, C})
            for (bool persisted : {false, true})
                for (bool exported : {false, true})
                    // consecutive targets differ, so that every step really is a move
                    for (auto target : std::vector<std::pair<int64_t, int>>{{0, -1}, {0, 0}, {A, -1}, {A, 0}, {B, -1}, {A, 1}, {0, 1}})
                    {
                        ++step;
                        a.count("evaluations");
                        const std::string cid = sn + "|P|playlist_move#" + std::to_string(step);
                        try
                        {
                            auto lst = target.first == 0 ? pl.root_ids() : pl.child_ids(target.first);
                            std::vector<int64_t> sibs;
                            for (auto x : lst)
                                if (x != subject) sibs.push_back(x);
                            int64_t next = target.second < 0 || sibs.empty() ? 0 : sibs[(size_t)target.second % sibs.size()];
                            v2::playlist_row row{subject, "mv-moved" + std::to_string(step), target.first, persisted, next, tpt{seconds{1700000000 + step}}, exported};
                            auto before = pl.get(subject);
                            if (before && (before->parent_list_id != row.parent_list_id || before->next_list_id != row.next_list_id)) ++moved;
                            pl.update(row);
                            auto got = pl.get(subject);
                            std::string diff;
                            if (!got) diff = "row is gone";
                            else
                            {
                                if (got->title != row.title) diff += " title";
                                if (got->parent_list_id != row.parent_list_id) diff += " parentListId";
                                if (got->is_persisted != row.is_persisted) diff += " isPersisted";
                                if (got->next_list_id != row.next_list_id) diff += " nextListId";
                                if (got->last_edit_time != row.last_edit_time) diff += " lastEditTime";
                                if (got->is_explicitly_exported != row.is_explicitly_exported) diff += " isExplicitlyExported";
                            }
                            if (!diff.empty())
                                a.violation("playlist_row|update_move|not_preserved", "[" + sn + "] playlist update() moving a row to parent " + std::to_string(target.first) + " before " + std::to_string(next) + " with isPersisted=" + std::to_string(persisted) + " isExplicitlyExported=" + std::to_string(exported) + " reads back differently in:" + diff, cid);
                            else a.count("validated");
                        }
                        catch (const std::exception& e)
                        {
                            a.violation("playlist_row|update_move|rejected", "[" + sn + "] playlist update() moving a row threw: " + exname(e) + ": " + e.what(), cid);
                        }
                    }
        a.count("playlist_updates_that_moved", moved);
        if (moved < 40) a.violation("harness|playlist_move|vacuous", "[" + sn + "] only " + std::to_string(moved) + " of the playlist updates changed the position", sn + "|P|playlist_move");
    }
    // ---- change log rows (the table exists before 2.20.3 only): add() reads back through last(), all() and after()
    {
        a.count("evaluations");
        const bool has_table = !w.query("SELECT name FROM sqlite_master WHERE type = 'table' AND name = 'ChangeLog'").empty();
        const std::string cid = sn + "|P|change_log";
        try
        {
            auto cl = w.lib2->change_log();
            if (!has_table) a.violation("change_log|accessor_without_table", "[" + sn + "] change_log() is handed out although the schema has no ChangeLog table", cid);
            else
            {
                auto before = cl.all();
                int64_t id = cl.add(4242);
                auto l = cl.last();
                auto all = cl.all();
                auto aft = cl.after(id - 1);
                bool ok2 = l && l->id == id && l->track_id == 4242 && all.size() == before.size() + 1 && all.back().id == id && all.back().track_id == 4242 && aft.size() == 1 && aft[0].id == id && aft[0].track_id == 4242 &&
                           cl.after(id).empty();
                auto raw = w.query("SELECT id, trackId FROM ChangeLog ORDER BY id");
                ok2 = ok2 && raw.size() == all.size();
                for (size_t k = 0; ok2 && k < raw.size(); ++k) ok2 = std::to_string(all[k].id) == raw[k][0] && std::to_string(all[k].track_id) == raw[k][1];
                if (!ok2) a.violation("change_log|add|not_preserved", "[" + sn + "] change_log add(4242) is not read back by last() / all() / after(), or all() differs from the raw table", cid);
                else a.count("validated");
            }
        }
        catch (const std::exception& e)
        {
            if (has_table) a.violation("change_log|rejected", "[" + sn + "] the ChangeLog table exists but the change log API threw: " + exname(e) + ": " + e.what(), cid);
            else a.count("validated");
        }
    }
    // ---- playlist entity rows
    int64_t t1 = tt.add(base_row(0)), t2 = tt.add(base_row(1));
    for (int64_t track : {t1, t2})
        for (auto& uuid : {w.uuid, std::string("11111111-2222-3333-4444-555555555555")})
            for (int64_t mref : {(int64_t)0, (int64_t)7, INT64_MAX})
            {
                a.count("evaluations");
                const std::string cid = sn + "|P|entity";
                v2::playlist_entity_row row{v2::PLAYLIST_ENTITY_ROW_ID_NONE, ids[0], track, uuid, v2::PLAYLIST_ENTITY_NO_NEXT_ENTITY_ID, mref};
                try
                {
                    pe.clear(ids[0]);
                    int64_t id = pe.add_back(row);
                    auto all = pe.get_for_list(ids[0]);
                    if (all.size() != 1 || all.front().id != id || all.front().track_id != track || all.front().database_uuid != uuid || all.front().membership_reference != mref || all.front().list_id != ids[0] || all.front().next_entity_id != 0)
                        a.violation("playlist_entity_row|add_back|not_preserved", "[" + sn + "] playlist entity add_back() reads back differently", cid);
                    else a.count("validated");
                }
                catch (const std::exception& e) { a.violation("playlist_entity_row|rejected", "[" + sn + "] add_back threw " + exname(e) + ": " + e.what(), cid); }
            }
    // ---- whole-row calls handed a row in the wrong id state: add() / add_back() of a row that already names a stored row,
    // update() of a row that names none, add_back() of a membership that is already there. The headers document an exception.
    // The statement only gives this much: whatever such a call does, it may not disturb a stored row ("apart from the assigned
    // id"; "changes that column only"). So: the call throws and the database is exactly as before, or (add / add_back) it
    // returns the id of a row that reads back as written while every row that existed before is unchanged.
    {
        auto rows_of = [&](const char* table) { return w.query(std::string("SELECT * FROM ") + table + " ORDER BY id"); };
        // when a new row was accepted, the successor link (and edit time) of its neighbour in the chain legitimately changes
        auto others_unchanged = [&](const char* table, std::vector<std::vector<std::string>> before, int64_t new_id) {
            auto after = rows_of(table);
            std::vector<std::vector<std::string>> kept;
            for (auto& r : after)
                if (r[0] != std::to_string(new_id)) kept.push_back(r);
            if (new_id >= 0)
                for (auto* rows : {&before, &kept})
                    for (auto& r : *rows)
                    {
                        if (std::string(table) == "Playlist" && r.size() > 5) r[4] = r[5] = "*";
                        if (std::string(table) == "PlaylistEntity" && r.size() > 4) r[4] = "*";
                    }
            return kept == before;
        };
        auto probe = [&](const std::string& name, const char* table, const std::function<int64_t()>& call, const std::function<std::string(int64_t)>& reads_back) {
            a.count("evaluations");
            const std::string cid = sn + "|P|" + name;
            const std::string d0 = w.dump();
            auto before = rows_of(table);
            try
            {
                int64_t id = call();
                bool fresh = true;
                for (auto& r : before) fresh = fresh && r[0] != std::to_string(id);
                if (!others_unchanged(table, before, fresh ? id : -1)) a.violation("id_state|" + name + "|stored_row_disturbed", "[" + sn + "] " + name + " returned and a row that was already stored reads differently afterwards", cid);
                else if (fresh && !reads_back(id).empty()) a.violation("id_state|" + name + "|not_preserved", "[" + sn + "] " + name + " returned a new id: " + reads_back(id), cid);
                else a.count("validated");
                a.count("id_state." + name + ".accepted");
            }
            catch (const std::exception&)
            {
                if (w.dump() != d0) a.violation("id_state|" + name + "|rejected_with_effect", "[" + sn + "] " + name + " threw but the database changed", cid);
                else a.count("validated");
                a.count("id_state." + name + ".rejected");
            }
        };
        // track rows: t1 holds base_row(0); a different row that claims t1's id
        auto claim = base_row(1);
        claim.path = std::string("idstate/claimed.mp3");
        claim.filename = std::string("claimed.mp3");
        claim.id = t1;
        probe("track_table::add(row.id = stored id)", "Track", [&] { return tt.add(claim); }, [&](int64_t id) {
            auto g = tt.get(id);
            if (!g) return std::string("get() of the returned id finds nothing");
            std::string ff;
            auto d = facts_diff(expected_facts(claim, id, t.schema, w.uuid), row_facts(*g), &ff);
            return d.empty() ? d : "the new row does not read back as written: " + d;
        });
        claim.id = 424242;
        probe("track_table::add(row.id = unused id)", "Track", [&] { return tt.add(claim); }, [&](int64_t id) {
            auto g = tt.get(id);
            if (!g) return std::string("get() of the returned id finds nothing");
            std::string ff;
            auto d = facts_diff(expected_facts(claim, id, t.schema, w.uuid), row_facts(*g), &ff);
            return d.empty() ? d : "the new row does not read back as written: " + d;
        });
        claim.id = v2::TRACK_ROW_ID_NONE;
        claim.path = std::string("idstate/none.mp3");
        probe("track_table::update(row.id = none)", "Track", [&] { tt.update(claim); return (int64_t)-1; }, [&](int64_t) { return std::string(); });
        // playlist rows
        v2::playlist_row prow{ids[0], "idstate-list", 0, false, v2::PLAYLIST_NO_NEXT_LIST_ID, tpt{seconds{77}}, false};
        auto pl_reads = [&](int64_t id) {
            auto g = pl.get(id);
            return g && g->title == prow.title && g->parent_list_id == 0 && !g->is_persisted && !g->is_explicitly_exported ? std::string() : std::string("the new list does not read back as written");
        };
        probe("playlist_table::add(row.id = stored id)", "Playlist", [&] { return pl.add(prow); }, pl_reads);
        prow.id = v2::PLAYLIST_ROW_ID_NONE;
        prow.title = "idstate-none";
        probe("playlist_table::update(row.id = none)", "Playlist", [&] { pl.update(prow); return (int64_t)-1; }, pl_reads);
        // membership rows: list ids[0] holds exactly one entity at this point (the last add_back of the loop above)
        auto have = pe.get_for_list(ids[0]);
        if (have.size() != 1) a.violation("harness|id_state|setup", "[" + sn + "] expected one entity in the list", sn + "|P|id_state");
        else
        {
            auto e = have.front();
            auto dup = e;
            dup.id = v2::PLAYLIST_ENTITY_ROW_ID_NONE;
            for (bool thr : {true, false})
                probe(std::string("playlist_entity_table::add_back(duplicate, throw_if_duplicate=") + (thr ? "true)" : "false)"), "PlaylistEntity", [&] { return pe.add_back(dup, thr); }, [&](int64_t) { return std::string("a second entity for a (list, track, database) that is already in the list"); });
            auto withid = e;
            withid.track_id = e.track_id == t1 ? t2 : t1;
            probe("playlist_entity_table::add_back(row.id = stored id)", "PlaylistEntity", [&] { return pe.add_back(withid); }, [&](int64_t id) {
                for (auto& r : pe.get_for_list(ids[0]))
                    if (r.id == id) return r.track_id == withid.track_id && r.database_uuid == withid.database_uuid && r.membership_reference == withid.membership_reference ? std::string() : std::string("the new entity does not read back as written");
                return std::string("the new entity is not listed");
            });
        }
    }
    // ---- information table
    {
        a.count("evaluations");
        auto raw = w.query("SELECT id, uuid, schemaVersionMajor, schemaVersionMinor, schemaVersionPatch, currentPlayedIndiciator, lastRekordBoxLibraryImportReadCounter FROM Information");
        auto r = info.get();
        bool same = raw.size() == 1 && raw[0][0] == std::to_string(r.id) && raw[0][1] == r.uuid && raw[0][2] == std::to_string(r.schema_version_major) && raw[0][3] == std::to_string(r.schema_version_minor) &&
                    raw[0][4] == std::to_string(r.schema_version_patch) && raw[0][5] == std::to_string(r.current_played_indicator) && raw[0][6] == std::to_string(r.last_rekord_box_library_import_read_counter);
        if (!same) a.violation("information_row|get", "[" + sn + "] information_table::get() differs from the raw row", sn + "|P|information");
        else a.count("validated");
        for (int64_t v : {(int64_t)0, (int64_t)-5, INT64_MAX})
        {
            a.count("evaluations");
            info.update_current_played_indicator(v);
            auto raw2 = w.query("SELECT id, uuid, schemaVersionMajor, schemaVersionMinor, schemaVersionPatch, currentPlayedIndiciator, lastRekordBoxLibraryImportReadCounter FROM Information");
            bool ok = raw2.size() == 1 && raw2[0][5] == std::to_string(v) && info.get().current_played_indicator == v;
            for (int c : {0, 1, 2, 3, 4, 6}) ok = ok && raw2[0][(size_t)c] == raw[0][(size_t)c];
            if (!ok) a.violation("information_row|update_current_played_indicator", "[" + sn + "] update_current_played_indicator(" + std::to_string(v) + ") is not read back or changed another column", sn + "|P|information");
            else a.count("validated");
        }
    }
}

int run(const Options& o)
{
    Evidence ev(o, "model_checking");
    Reporter rep(o.property, build_variant());
    Agg total;
    const double t0 = now_s();
    std::vector<Task> tasks;
    for (auto s : all_schemas())
    {
        if (!is_v2(s)) continue;
        for (int base = 0; base < 2; ++base)
        {
            tasks.push_back({s, 'R', base});
            tasks.push_back({s, 'U', base});
        }
        tasks.push_back({s, 'C', 0});
        tasks.push_back({s, 'P', 0});
    }
    const int k = getenv("VX_C18_K") ? atoi(getenv("VX_C18_K")) : (o.quick() ? 1 : 2);
    int64_t only_idx = -1;
    if (!o.only.empty())
    {
        // "<schema>|<phase>|..." : re-run the whole task of that phase (cheap) and report
        auto parts = split(o.only, '|');
        tasks.clear();
        tasks.push_back({*schema_by_name(parts[0]), parts[1][0], parts.size() > 2 && isdigit((unsigned char)parts[2][0]) ? atoi(parts[2].c_str()) : 0});
    }
    (void)only_idx;
    const double deadline = t0 + (o.deadline_s > 0 ? o.deadline_s : (o.quick() ? 280 : 3000));
    bool dl = false;
    g_substep_timeout_s = 60;
    auto res = run_pool_sub(
        tasks.size(), o.jobs, 3600,
        [&](size_t ti, int64_t from, Emitter& em, Sub& sub) {
            Agg a;
            a.live = &em;
            const Task& t = tasks[ti];
            World w(t.schema);
            if (t.phase == 'R' || t.phase == 'U') rows_phase(w, t, k, from, sub, em, a);
            else if (t.phase == 'C') columns_phase(w, t, from, sub, em, a);
            else if (from == 0) { sub.at(0); sub.label(schema_name(t.schema) + "|P"); misc_phase(w, t, a); }
            a.flush(em);
        },
        nullptr, deadline, &dl, 10000);
    size_t done = 0;
    for (size_t i = 0; i < res.size(); ++i)
    {
        for (auto& l : res[i].lines) total.merge_line(l, rep);
        for (auto& sc : res[i].subcrashes) rep.add(Violation{std::string("crash|") + tasks[i].phase + "|" + sc.kind + "@" + sc.frame, "table API call died: " + sc.kind + " in " + sc.frame, sc.label, Json(sc.head)});
        if (res[i].status != CaseResult::Ok) rep.add(Violation{"crash:" + res[i].crash_kind, "task died (" + res[i].crash_kind + ") in " + res[i].crash_frame, schema_name(tasks[i].schema), Json(res[i].crash_head)});
        else if (res[i].crash_kind != "not-run") ++done;
    }
    rep.set_counts(total.vcount);
    if (!o.only.empty())
    {
        // keep only the violations of the requested case (or all, if the case id names a whole phase)
        for (auto& kv : rep.firsts()) printf("  %s: %s [%s]\n", kv.first.c_str(), kv.second.what.c_str(), kv.second.case_id.c_str());
        return rep.finish();
    }
    const bool exhaustive = !dl && done == tasks.size();
    auto& c = ev.cov();
    c["evaluations"] = total.get("evaluations");
    c["distinct_nontrivial"] = total.ndistinct("rows");
    c["states"] = total.ndistinct("rows");
    c["transitions"] = total.get("evaluations");
    c["traces_validated_against_impl"] = total.get("validated");
    c["rule"] =
        "All 7 schema-2.x versions. Rows: two all-distinct base track_rows (every column of the same C++ type holds a different value, so that any transposition of two bindings in the hand-written "
        "INSERT / UPDATE / SELECT lists changes the read-back) with at most k=" + std::to_string(k) + " column deviations from per-type alphabets (optional absent, '', 300 bytes, UTF-8, quotes; int64 0 / -1 / min / max / 2^31; "
        "booleans; epoch, pre-epoch, 2^31 s time points; two alternative values of each blob struct incl. extra data), written by add() and by update() over a row created from the other base. "
        "get() must equal the written row except id, last-edit time and the origin pair when it was empty (then origin id = id and origin uuid = library uuid); every per-column getter must equal "
        "the row's field; a bystander row must not change. Columns: for each of the 48 columns two values are set through the per-column setter in every state reachable by at most one other "
        "setter call (all ordered pairs): getter returns the value, get() shows it, no other column of either row changes (last-edit time excepted), columns a schema does not have must throw. "
        "Also playlist_row add / get / update (flags and time only; rename; moves of a leaf child and a leaf root to 7 (parent, successor) targets x 4 flag combinations with every field compared) / remove, playlist_entity_row add_back with own and foreign uuid and membership references, information_table get vs "
        "the raw row and update_current_played_indicator, and every per-column accessor, update and remove on a nonexistent id (must throw).";
    c["exhaustive"] = exhaustive;
    Json b = Json::object();
    b["max_column_deviations"] = k;
    b["tasks_total"] = (long long)tasks.size();
    b["tasks_completed"] = (long long)done;
    b["deadline_hit"] = dl;
    c["bounds"] = b;
    c["counters"] = total.counters_json();
    ev.sample(Json("2.18.0|R|0|base   (add() of all-distinct base row 0)"));
    ev.sample(Json("2.20.1|U|1|29=1,30=2   (update() with two deviated boolean columns)"));
    ev.sample(Json("2.21.2|C|title#0|artist#1   (set_title then set_artist on row A)"));
    ev.assumption("time points are whole seconds (the columns store integer seconds); UNIQUE-constraint rejections (path, origin pair) are legitimate");
    for (auto& h : total.harness_errors) fprintf(stderr, "harness error: %s\n", h.c_str());
    int bad = rep.finish();
    if (!total.harness_errors.empty()) bad = -1;
    ev.write(bad < 0 ? 0 : bad, rep.known_hits());
    printf("C18 %s: evaluations=%lld validated=%lld tasks=%zu/%zu exhaustive=%d wall=%.1fs\n", o.tier.c_str(), total.get("evaluations"), total.get("validated"), done, tasks.size(), (int)exhaustive, now_s() - t0);
    return bad;
}
Registrar reg({"C18", "san", "opt", run});
}  // namespace
