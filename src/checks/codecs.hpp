// Shared by C02/C03/C04/C05: the eleven blob codecs behind one traits interface, value generators
// ("base value + at most k field deviations"), and the mapping between library values and refcodec payloads.
#pragma once
#include <cfloat>
#include <climits>
#include <cmath>
#include <functional>
#include <limits>
#include <optional>

#include <djinterop/djinterop.hpp>
#include <djinterop/engine/v2/beat_data_blob.hpp>
#include <djinterop/engine/v2/loops_blob.hpp>
#include <djinterop/engine/v2/overview_waveform_data_blob.hpp>
#include <djinterop/engine/v2/quick_cues_blob.hpp>
#include <djinterop/engine/v2/track_data_blob.hpp>

#include "djinterop/engine/encode_decode_utils.hpp"
#include "djinterop/engine/v1/performance_data_format.hpp"

#include "common/core.hpp"
#include "common/seams.hpp"
#include "refcodec/refcodec.hpp"

namespace cod
{
namespace dj = djinterop;
namespace v1 = djinterop::engine::v1;
namespace v2 = djinterop::engine::v2;
using ref::Bytes;
using ByteVec = std::vector<std::byte>;

inline ByteVec to_v(const Bytes& s)
{
    ByteVec v(s.size());
    if (!s.empty()) memcpy(v.data(), s.data(), s.size());
    return v;
}
inline Bytes to_s(const ByteVec& v) { return v.empty() ? Bytes() : Bytes((const char*)v.data(), v.size()); }

// ---------------------------------------------------------------------------------------------------------
// Chooser: a value generator asks for one alphabet index per field, always in the same order. In probe mode
// it records the alphabet sizes; otherwise it replays a choice vector (index 0 = the base value of the field).
struct Chooser
{
    std::vector<int> sizes;
    const std::vector<int>* choice = nullptr;
    size_t i = 0;
    bool wide = false;  // thorough tier: larger alphabets for sizes
    int pick(int n)
    {
        if (!choice)
        {
            sizes.push_back(n);
            return 0;
        }
        int c = i < choice->size() ? (*choice)[i] : 0;
        ++i;
        return c < n ? c : 0;
    }
    static const std::vector<double>& doubles()
    {
        static const std::vector<double> d = {
            0.0, -0.0, 4.9406564584124654e-324, -4.9406564584124654e-324, 1.0, -1.0, 0.5, 1e15, DBL_MAX, -DBL_MAX,
            std::numeric_limits<double>::infinity(), -std::numeric_limits<double>::infinity(),
            std::numeric_limits<double>::quiet_NaN(), ref::from_bits(0x7ff0000000000001ull), 44100.0, 123456.789, 2.2250738585072014e-308};
        return d;
    }
    double dbl(double base)
    {
        int k = pick((int)doubles().size() + 1);
        return k == 0 ? base : doubles()[k - 1];
    }
    int64_t i64(int64_t base)
    {
        static const int64_t a[] = {0, 1, -1, INT64_MIN, INT64_MAX, 1ll << 31, 1ll << 32, -(1ll << 31) - 1, 0x0102030405060708ll};
        int k = pick(10);
        return k == 0 ? base : a[k - 1];
    }
    int32_t i32(int32_t base)
    {
        static const int32_t a[] = {0, 1, -1, INT32_MIN, INT32_MAX, 0x01020304, 256};
        int k = pick(8);
        return k == 0 ? base : a[k - 1];
    }
    uint8_t u8(uint8_t base)
    {
        static const uint8_t a[] = {0, 1, 2, 127, 128, 255};
        int k = pick(7);
        return k == 0 ? base : a[k - 1];
    }
    bool flag(bool base)
    {
        int k = pick(2);
        return k == 0 ? base : !base;
    }
    // labels: every length class x four byte fillings
    Bytes label(const Bytes& base)
    {
        static const int lens[] = {0, 1, 2, 127, 128, 254, 255, 256, 257, 300};
        int k = pick(1 + 10 * 5);
        if (k == 0) return base;
        int len = lens[(k - 1) / 5], fill = (k - 1) % 5;
        Bytes s;
        static const char* utf = "\xc3\xa9\xe2\x82\xac\xf0\x9f\x8e\xb5";  // 2-, 3- and 4-byte sequences
        for (int j = 0; j < len; ++j)
            s.push_back(fill == 0 ? (char)('a' + j % 26) : fill == 1 ? '\0' : fill == 2 ? (char)0xff : fill == 3 ? utf[j % 9] : (j % 5 == 2 ? '\0' : (char)('A' + j % 26)));  // 4: NULs between other bytes
        return s;
    }
    Bytes extra()
    {
        int k = pick(7);
        if (k == 6)
        {
            // 20000 incompressible bytes: the compressed stream is longer than the codecs' 16384-byte output chunk
            Bytes s(20000, '\0');
            uint64_t x = 0x2545F4914F6CDD1Dull;
            for (auto& c : s) { x ^= x << 13; x ^= x >> 7; x ^= x << 17; c = (char)(x >> 24); }
            return s;
        }
        if (k == 5) return Bytes("\x01PAD", 4);  // replaced by pad_to_chunk(): payload becomes an exact multiple of zlib's 16384-byte chunk
        switch (k)
        {
            case 0: return {};
            case 1: return Bytes(1, '\x7f');
            case 2: return Bytes(9, '\0');
            case 3: { Bytes s; for (int j = 0; j < 300; ++j) s.push_back((char)(j * 7 + 1)); return s; }
            default: return Bytes("\x00\x01\x00", 3);
        }
    }
    // list lengths
    size_t count(size_t base, std::initializer_list<size_t> alts)
    {
        int k = pick(1 + (int)alts.size());
        return k == 0 ? base : *(alts.begin() + (k - 1));
    }
};

// All choice vectors with at most k non-base entries, in simplest-first order (0 deviations, then 1, then 2, ...); fn(index, choice).
inline void enumerate_choices(const std::vector<int>& sizes, int k, const std::function<void(int64_t, const std::vector<int>&)>& fn)
{
    std::vector<int> c(sizes.size(), 0);
    int64_t idx = 0;
    std::function<void(size_t, int)> rec = [&](size_t first, int left) {
        if (left == 0)
        {
            fn(idx++, c);
            return;
        }
        for (size_t f = first; f < sizes.size(); ++f)
            for (int a = 1; a < sizes[f]; ++a)
            {
                c[f] = a;
                rec(f + 1, left - 1);
                c[f] = 0;
            }
    };
    for (int d = 0; d <= k; ++d) rec(0, d);
}
inline std::string choice_str(const std::vector<int>& c)
{
    std::string s;
    for (size_t f = 0; f < c.size(); ++f)
        if (c[f]) s += (s.empty() ? "" : ",") + std::to_string(f) + "=" + std::to_string(c[f]);
    return s.empty() ? "base" : s;
}
inline std::vector<int> parse_choice(const std::string& s, size_t n)
{
    std::vector<int> c(n, 0);
    if (s == "base" || s.empty()) return c;
    for (auto& kv : vx::split(s, ','))
    {
        auto e = kv.find('=');
        if (e == std::string::npos) continue;
        size_t f = (size_t)atoll(kv.substr(0, e).c_str());
        if (f < n) c[f] = atoi(kv.substr(e + 1).c_str());
    }
    return c;
}

// Replace the PAD marker by as many bytes as make the payload an exact multiple of 16384 (the codecs' streaming chunk size).
template <class R>
inline void pad_to_chunk(R& v)
{
    if (v.extra != Bytes("\x01PAD", 4)) return;
    v.extra.clear();
    size_t n = ref::encode(v).size();
    size_t pad = (16384 - n % 16384) % 16384;
    v.extra.assign(pad, '\0');
    for (size_t j = 0; j < pad; ++j) v.extra[j] = (char)(j * 13 + 5);
}

// ---------------------------------------------------------------------------------------------------------
// Generators for refcodec payload values (schema 2.x shapes; the library's v2 structs mirror them 1:1).
inline std::vector<ref::Marker> gen_grid(Chooser& c, size_t base_n, bool wide)
{
    size_t n = wide ? c.count(base_n, {0, 1, 2, 8, 682, 683, 32768, 32769, 40000}) : c.count(base_n, {0, 1, 2, 8, 683});
    std::vector<ref::Marker> g(n);
    for (size_t i = 0; i < n; ++i)
    {
        g[i].offset = 100.5 + 22050.25 * (double)i;
        g[i].beat_number = (int64_t)i * 4 - 4;
        g[i].number_of_beats = i + 1 < n ? 4 : 0;
        g[i].unknown = 0;
    }
    // deviations on the first, second and last marker (requested even when absent, to keep the field order fixed)
    for (int which = 0; which < 3; ++which)
    {
        ref::Marker dummy, *m = &dummy;
        size_t idx = which == 0 ? 0 : which == 1 ? 1 : (n ? n - 1 : 0);
        if (idx < n) m = &g[idx];
        m->offset = c.dbl(m->offset);
        m->beat_number = c.i64(m->beat_number);
        m->number_of_beats = c.i32(m->number_of_beats);
        m->unknown = c.i32(m->unknown);
    }
    return g;
}
inline ref::BeatData gen_beat(Chooser& c)
{
    ref::BeatData v;
    v.sample_rate = c.dbl(44100);
    v.samples = c.dbl(8820000);
    v.is_set = c.u8(1);
    v.def = gen_grid(c, 3, c.wide);
    v.adj = gen_grid(c, 3, c.wide);
    v.extra = c.extra();
    pad_to_chunk(v);
    return v;
}
inline ref::QuickCues gen_cues(Chooser& c)
{
    ref::QuickCues v;
    size_t n = c.count(8, {0, 1, 2, 7, 9, 12});
    v.cues.resize(n);
    for (size_t i = 0; i < n; ++i)
        if (i % 3 == 0)
        {
            v.cues[i].label = "Cue " + std::to_string(i + 1);
            v.cues[i].offset = 1000.5 * (double)(i + 1);
            v.cues[i].a = 255;
            v.cues[i].r = (uint8_t)(10 + i);
            v.cues[i].g = (uint8_t)(20 + i);
            v.cues[i].b = (uint8_t)(30 + i);
        }
    for (int which = 0; which < 3; ++which)
    {
        ref::Cue dummy, *q = &dummy;
        size_t idx = which == 0 ? 0 : which == 1 ? 1 : (n ? n - 1 : 0);
        if (idx < n) q = &v.cues[idx];
        q->label = c.label(q->label);
        q->offset = c.dbl(q->offset);
        q->a = c.u8(q->a);
        q->r = c.u8(q->r);
        q->g = c.u8(q->g);
        q->b = c.u8(q->b);
    }
    v.adjusted_main = c.dbl(2345.5);
    v.is_adjusted = c.u8(1);
    v.default_main = c.dbl(2000.25);
    v.extra = c.extra();
    pad_to_chunk(v);
    return v;
}
inline ref::Loops gen_loops(Chooser& c)
{
    ref::Loops v;
    size_t n = c.count(8, {0, 1, 2, 7, 9, 12});
    v.loops.resize(n);
    for (size_t i = 0; i < n; ++i)
        if (i % 3 == 1)
        {
            auto& l = v.loops[i];
            l.label = "Loop " + std::to_string(i + 1);
            l.start = 500.25 * (double)(i + 1);
            l.end = l.start + 4000;
            l.start_set = l.end_set = 1;
            l.a = 255;
            l.r = (uint8_t)(40 + i);
            l.g = (uint8_t)(50 + i);
            l.b = (uint8_t)(60 + i);
        }
    for (int which = 0; which < 3; ++which)
    {
        ref::Loop dummy, *q = &dummy;
        size_t idx = which == 0 ? 0 : which == 1 ? 1 : (n ? n - 1 : 0);
        if (idx < n) q = &v.loops[idx];
        q->label = c.label(q->label);
        q->start = c.dbl(q->start);
        q->end = c.dbl(q->end);
        q->start_set = c.u8(q->start_set);
        q->end_set = c.u8(q->end_set);
        q->a = c.u8(q->a);
        q->r = c.u8(q->r);
        q->g = c.u8(q->g);
        q->b = c.u8(q->b);
    }
    v.extra = c.extra();
    pad_to_chunk(v);
    return v;
}
template <size_t K, class T>
inline void gen_wave(Chooser& c, T& v)
{
    v.samples_per_point = c.dbl(8613.28125);
    size_t n = c.wide ? c.count(4, {0, 1, 2, 1023, 1024, 1025, 5461, 5462, 8187, 16375, 100000}) : c.count(4, {0, 1, 2, 1024, 5462, 8187, 16375});
    v.points.resize(n);
    for (size_t i = 0; i < n; ++i)
        for (size_t k = 0; k < K; ++k) v.points[i][k] = (uint8_t)((i * 31 + k * 7 + 3) & 0xff);
    for (int which = 0; which < 2; ++which)
    {
        std::array<uint8_t, K> dummy{}, *p = &dummy;
        size_t idx = which == 0 ? 0 : (n ? n - 1 : 0);
        if (idx < n) p = &v.points[idx];
        for (size_t k = 0; k < K; ++k) (*p)[k] = c.u8((*p)[k]);
    }
    for (size_t k = 0; k < K; ++k) v.maximum[k] = c.u8((uint8_t)(200 + k));
    v.extra = c.extra();
    pad_to_chunk(v);
}
inline ref::Overview gen_overview(Chooser& c)
{
    ref::Overview v;
    gen_wave<3>(c, v);
    return v;
}
inline ref::TrackData2 gen_td2(Chooser& c)
{
    ref::TrackData2 v;
    v.sample_rate = c.dbl(48000);
    v.samples = c.i64(9600000);
    v.key = c.i32(5);
    v.loud_low = c.dbl(0.25);
    v.loud_mid = c.dbl(0.5);
    v.loud_high = c.dbl(0.75);
    v.extra = c.extra();
    pad_to_chunk(v);
    return v;
}

// ---------------------------------------------------------------------------------------------------------
// Traits. Lib = library value type, Ref = refcodec payload type.
//   make(c)        value under test
//   enc/dec        the library's codec
//   to_ref(v)      the payload content the Engine layout prescribes for v (written here, independently)
//   norm(v)        the value that is expected to be read back (identity except documented sentinels)
//   must_accept(v) v lies in the encodable domain: the encoder may not refuse it
inline dj::pad_color col(uint8_t r, uint8_t g, uint8_t b, uint8_t a) { return dj::pad_color{r, g, b, a}; }

struct V2Beat
{
    using Lib = v2::beat_data_blob;
    using Ref = ref::BeatData;
    static constexpr const char* name = "v2.beat_data";
    static constexpr bool framed = true, is_v2 = true;
    static Ref make_ref(Chooser& c) { return gen_beat(c); }
    static Lib from_ref(const Ref& r)
    {
        Lib v;
        v.sample_rate = r.sample_rate;
        v.samples = r.samples;
        v.is_beatgrid_set = r.is_set;
        for (auto& m : r.def) v.default_beat_grid.push_back({m.offset, m.beat_number, m.number_of_beats, m.unknown});
        for (auto& m : r.adj) v.adjusted_beat_grid.push_back({m.offset, m.beat_number, m.number_of_beats, m.unknown});
        v.extra_data = to_v(r.extra);
        return v;
    }
    static Lib make(Chooser& c) { return from_ref(make_ref(c)); }
    static ByteVec enc(const Lib& v) { return v.to_blob(); }
    static Lib dec(const ByteVec& b) { return Lib::from_blob(b); }
    static Ref to_ref(const Lib& v)
    {
        Ref r;
        r.sample_rate = v.sample_rate;
        r.samples = v.samples;
        r.is_set = v.is_beatgrid_set;
        for (auto& m : v.default_beat_grid) r.def.push_back({m.sample_offset, m.beat_number, m.number_of_beats, m.unknown_value_1});
        for (auto& m : v.adjusted_beat_grid) r.adj.push_back({m.sample_offset, m.beat_number, m.number_of_beats, m.unknown_value_1});
        r.extra = to_s(v.extra_data);
        return r;
    }
    static Lib norm(const Lib& v) { return v; }
    static bool must_accept(const Lib&) { return true; }
};

struct V2Cues
{
    using Lib = v2::quick_cues_blob;
    using Ref = ref::QuickCues;
    static constexpr const char* name = "v2.quick_cues";
    static constexpr bool framed = true, is_v2 = true;
    static Ref make_ref(Chooser& c) { return gen_cues(c); }
    static Lib from_ref(const Ref& r)
    {
        Lib v;
        for (auto& q : r.cues) v.quick_cues.push_back(v2::quick_cue_blob{q.label, q.offset, col(q.r, q.g, q.b, q.a)});
        v.adjusted_main_cue = r.adjusted_main;
        v.is_main_cue_adjusted = r.is_adjusted != 0;
        v.default_main_cue = r.default_main;
        v.extra_data = to_v(r.extra);
        return v;
    }
    static Lib make(Chooser& c) { return from_ref(make_ref(c)); }
    static ByteVec enc(const Lib& v) { return v.to_blob(); }
    static Lib dec(const ByteVec& b) { return Lib::from_blob(b); }
    static Ref to_ref(const Lib& v)
    {
        Ref r;
        for (auto& q : v.quick_cues) r.cues.push_back(ref::Cue{q.label, q.sample_offset, q.color.a, q.color.r, q.color.g, q.color.b});
        r.adjusted_main = v.adjusted_main_cue;
        r.is_adjusted = v.is_main_cue_adjusted ? 1 : 0;
        r.default_main = v.default_main_cue;
        r.extra = to_s(v.extra_data);
        return r;
    }
    static Lib norm(const Lib& v) { return v; }
    static bool must_accept(const Lib& v)
    {
        for (auto& q : v.quick_cues)
            if (q.label.size() > 255) return false;
        return true;
    }
};

struct V2Loops
{
    using Lib = v2::loops_blob;
    using Ref = ref::Loops;
    static constexpr const char* name = "v2.loops";
    static constexpr bool framed = false, is_v2 = true;
    static Ref make_ref(Chooser& c) { return gen_loops(c); }
    static Lib from_ref(const Ref& r)
    {
        Lib v;
        for (auto& l : r.loops) v.loops.push_back(v2::loop_blob{l.label, l.start, l.end, l.start_set, l.end_set, col(l.r, l.g, l.b, l.a)});
        v.extra_data = to_v(r.extra);
        return v;
    }
    static Lib make(Chooser& c) { return from_ref(make_ref(c)); }
    static ByteVec enc(const Lib& v) { return v.to_blob(); }
    static Lib dec(const ByteVec& b) { return Lib::from_blob(b); }
    static Ref to_ref(const Lib& v)
    {
        Ref r;
        for (auto& l : v.loops)
            r.loops.push_back(ref::Loop{l.label, l.start_sample_offset, l.end_sample_offset, l.is_start_set, l.is_end_set, l.color.a, l.color.r, l.color.g, l.color.b});
        r.extra = to_s(v.extra_data);
        return r;
    }
    static Lib norm(const Lib& v) { return v; }
    static bool must_accept(const Lib& v)
    {
        for (auto& l : v.loops)
            if (l.label.size() > 255) return false;
        return true;
    }
};

struct V2Overview
{
    using Lib = v2::overview_waveform_data_blob;
    using Ref = ref::Overview;
    static constexpr const char* name = "v2.overview_waveform";
    static constexpr bool framed = true, is_v2 = true;
    static Ref make_ref(Chooser& c) { return gen_overview(c); }
    static Lib from_ref(const Ref& r)
    {
        Lib v;
        v.samples_per_waveform_point = r.samples_per_point;
        for (auto& p : r.points) v.waveform_points.push_back({p[0], p[1], p[2]});
        v.maximum_point = {r.maximum[0], r.maximum[1], r.maximum[2]};
        v.extra_data = to_v(r.extra);
        return v;
    }
    static Lib make(Chooser& c) { return from_ref(make_ref(c)); }
    static ByteVec enc(const Lib& v) { return v.to_blob(); }
    static Lib dec(const ByteVec& b) { return Lib::from_blob(b); }
    static Ref to_ref(const Lib& v)
    {
        Ref r;
        r.samples_per_point = v.samples_per_waveform_point;
        for (auto& p : v.waveform_points) r.points.push_back({{p.low_value, p.mid_value, p.high_value}});
        r.maximum = {{v.maximum_point.low_value, v.maximum_point.mid_value, v.maximum_point.high_value}};
        r.extra = to_s(v.extra_data);
        return r;
    }
    static Lib norm(const Lib& v) { return v; }
    static bool must_accept(const Lib&) { return true; }
};

struct V2Track
{
    using Lib = v2::track_data_blob;
    using Ref = ref::TrackData2;
    static constexpr const char* name = "v2.track_data";
    static constexpr bool framed = true, is_v2 = true;
    static Ref make_ref(Chooser& c) { return gen_td2(c); }
    static Lib from_ref(const Ref& r)
    {
        Lib v{};
        v.sample_rate = r.sample_rate;
        v.samples = r.samples;
        v.key = r.key;
        v.average_loudness_low = r.loud_low;
        v.average_loudness_mid = r.loud_mid;
        v.average_loudness_high = r.loud_high;
        v.extra_data = to_v(r.extra);
        return v;
    }
    static Lib make(Chooser& c) { return from_ref(make_ref(c)); }
    static ByteVec enc(const Lib& v) { return v.to_blob(); }
    static Lib dec(const ByteVec& b) { return Lib::from_blob(b); }
    static Ref to_ref(const Lib& v)
    {
        Ref r;
        r.sample_rate = v.sample_rate;
        r.samples = v.samples;
        r.key = v.key;
        r.loud_low = v.average_loudness_low;
        r.loud_mid = v.average_loudness_mid;
        r.loud_high = v.average_loudness_high;
        r.extra = to_s(v.extra_data);
        return r;
    }
    static Lib norm(const Lib& v) { return v; }
    static bool must_accept(const Lib&) { return true; }
};

// ------------------------------------------------------------------------------------------------- schema 1.x
template <class T>
inline std::optional<T> opt_pick(Chooser& c, std::optional<T> base, std::initializer_list<T> alts)
{
    int k = c.pick(2 + (int)alts.size());
    if (k == 0) return base;
    if (k == 1) return std::nullopt;
    return *(alts.begin() + (k - 2));
}
inline std::optional<double> opt_dbl(Chooser& c, double base)
{
    int k = c.pick(2 + (int)Chooser::doubles().size());
    if (k == 0) return base;
    if (k == 1) return std::nullopt;
    return Chooser::doubles()[k - 2];
}
inline std::vector<dj::beatgrid_marker> gen_grid1(Chooser& c, size_t base_n, bool wide)
{
    size_t n = wide ? c.count(base_n, {0, 1, 2, 8, 683, 32767, 32768, 32769, 40000}) : c.count(base_n, {0, 1, 2, 8, 683, 32768, 32769});  // 32768 is the 1.x decoder's limit
    std::vector<dj::beatgrid_marker> g(n);
    for (size_t i = 0; i < n; ++i)
    {
        g[i].index = (int)i * 4 - 4;
        g[i].sample_offset = 100.5 + 22050.25 * (double)i;
    }
    for (int which = 0; which < 3; ++which)
    {
        dj::beatgrid_marker dummy, *m = &dummy;
        size_t idx = which == 0 ? 0 : which == 1 ? 1 : (n ? n - 1 : 0);
        if (idx < n) m = &g[idx];
        m->sample_offset = c.dbl(m->sample_offset);
        static const int ia[] = {0, 1, -1, INT_MIN, INT_MAX, -4, 1000000};
        int k = c.pick(8);
        if (k) m->index = ia[k - 1];
    }
    return g;
}
inline bool grid1_encodable(const std::vector<dj::beatgrid_marker>& g)
{
    if (g.size() == 1 || g.size() > 32768) return false;
    for (size_t i = 1; i < g.size(); ++i)
    {
        if (!(g[i].sample_offset > g[i - 1].sample_offset)) return false;
        int64_t d = (int64_t)g[i].index - g[i - 1].index;
        if (d <= 0 || d > INT32_MAX) return false;
    }
    return true;
}
inline std::vector<ref::Marker> grid1_ref(const std::vector<dj::beatgrid_marker>& g)
{
    std::vector<ref::Marker> r;
    for (size_t i = 0; i < g.size(); ++i)
    {
        ref::Marker m;
        m.offset = g[i].sample_offset;
        m.beat_number = g[i].index;
        m.number_of_beats = i + 1 < g.size() ? (int32_t)((int64_t)g[i + 1].index - g[i].index) : 0;
        m.unknown = 0;
        r.push_back(m);
    }
    return r;
}
inline bool is_zero(double d) { return d == 0; }

struct V1Beat
{
    using Lib = v1::beat_data;
    using Ref = ref::BeatData;
    static constexpr const char* name = "v1.beat_data";
    static constexpr bool framed = true, is_v2 = false;
    static Lib make(Chooser& c)
    {
        Lib v;
        v.sample_rate = opt_dbl(c, 44100);
        v.sample_count = opt_dbl(c, 8820000);
        v.default_beatgrid = gen_grid1(c, 3, c.wide);
        v.adjusted_beatgrid = gen_grid1(c, 3, c.wide);
        return v;
    }
    static ByteVec enc(const Lib& v) { return v.encode(); }
    static Lib dec(const ByteVec& b) { return Lib::decode(b); }
    static Ref to_ref(const Lib& v)
    {
        Ref r;
        r.sample_rate = v.sample_rate.value_or(0);
        r.samples = v.sample_count.value_or(0);
        r.is_set = 1;
        r.def = grid1_ref(v.default_beatgrid);
        r.adj = grid1_ref(v.adjusted_beatgrid);
        return r;
    }
    static Lib norm(Lib v)
    {
        if (v.sample_rate && is_zero(*v.sample_rate)) v.sample_rate.reset();
        if (v.sample_count && is_zero(*v.sample_count)) v.sample_count.reset();
        return v;
    }
    static bool must_accept(const Lib& v) { return grid1_encodable(v.default_beatgrid) && grid1_encodable(v.adjusted_beatgrid); }
};

inline std::vector<dj::waveform_entry> gen_wave1(Chooser& c, bool wide)
{
    size_t n = wide ? c.count(4, {0, 1, 2, 1023, 1024, 1025, 5461, 5462, 8187, 16375, 100000}) : c.count(4, {0, 1, 2, 1024, 5462, 8187, 16375});  // 8187 x 6 + 30 = 16375 x 3 + 27 = 3 x 16384
    std::vector<dj::waveform_entry> w(n);
    const bool noisy = c.pick(2) == 1;  // incompressible content: the compressed stream outgrows one 16384-byte output chunk for the larger sizes
    uint64_t x = 0x9E3779B97F4A7C15ull;
    for (size_t i = 0; i < n; ++i)
    {
        w[i].low = {(uint8_t)(i * 31 + 3), (uint8_t)(i * 5 + 1)};
        w[i].mid = {(uint8_t)(i * 17 + 5), (uint8_t)(i * 3 + 2)};
        w[i].high = {(uint8_t)(i * 13 + 7), (uint8_t)(255 - i)};
        if (noisy)
        {
            x ^= x << 13; x ^= x >> 7; x ^= x << 17;
            w[i].low = {(uint8_t)(x >> 8), (uint8_t)(x >> 16)};
            w[i].mid = {(uint8_t)(x >> 24), (uint8_t)(x >> 32)};
            w[i].high = {(uint8_t)(x >> 40), (uint8_t)(x >> 48)};
        }
    }
    for (int which = 0; which < 2; ++which)
    {
        dj::waveform_entry dummy, *p = &dummy;
        size_t idx = which == 0 ? 0 : (n ? n - 1 : 0);
        if (idx < n) p = &w[idx];
        p->low.value = c.u8(p->low.value);
        p->mid.value = c.u8(p->mid.value);
        p->high.value = c.u8(p->high.value);
        p->low.opacity = c.u8(p->low.opacity);
        p->mid.opacity = c.u8(p->mid.opacity);
        p->high.opacity = c.u8(p->high.opacity);
    }
    return w;
}
struct V1HighRes
{
    using Lib = v1::high_res_waveform_data;
    using Ref = ref::HighRes;
    static constexpr const char* name = "v1.high_res_waveform";
    static constexpr bool framed = true, is_v2 = false;
    static Lib make(Chooser& c)
    {
        Lib v;
        v.samples_per_entry = c.dbl(420);
        v.waveform = gen_wave1(c, c.wide);
        return v;
    }
    static ByteVec enc(const Lib& v) { return v.encode(); }
    static Lib dec(const ByteVec& b) { return Lib::decode(b); }
    static Ref to_ref(const Lib& v)
    {
        Ref r;
        r.samples_per_point = v.samples_per_entry;
        for (auto& e : v.waveform)
        {
            std::array<uint8_t, 6> p{{e.low.value, e.mid.value, e.high.value, e.low.opacity, e.mid.opacity, e.high.opacity}};
            for (int k = 0; k < 6; ++k) r.maximum[k] = std::max(r.maximum[k], p[k]);
            r.points.push_back(p);
        }
        return r;
    }
    static Lib norm(const Lib& v) { return v; }
    static bool must_accept(const Lib&) { return true; }
};
struct V1Overview
{
    using Lib = v1::overview_waveform_data;
    using Ref = ref::Overview;
    static constexpr const char* name = "v1.overview_waveform";
    static constexpr bool framed = true, is_v2 = false;
    static Lib make(Chooser& c)
    {
        Lib v;
        v.samples_per_entry = c.dbl(8613.28125);
        v.waveform = gen_wave1(c, c.wide);
        return v;
    }
    static ByteVec enc(const Lib& v) { return v.encode(); }
    static Lib dec(const ByteVec& b) { return Lib::decode(b); }
    static Ref to_ref(const Lib& v)
    {
        Ref r;
        r.samples_per_point = v.samples_per_entry;
        for (auto& e : v.waveform)
        {
            std::array<uint8_t, 3> p{{e.low.value, e.mid.value, e.high.value}};
            for (int k = 0; k < 3; ++k) r.maximum[k] = std::max(r.maximum[k], p[k]);
            r.points.push_back(p);
        }
        return r;
    }
    // The 1.x overview layout has no opacity bytes: opacity is not part of the encodable value (reads back as the default 255).
    static Lib norm(Lib v)
    {
        for (auto& e : v.waveform) e.low.opacity = e.mid.opacity = e.high.opacity = 255;
        return v;
    }
    static bool must_accept(const Lib&) { return true; }
};
struct V1Loops
{
    using Lib = v1::loops_data;
    using Ref = ref::Loops;
    static constexpr const char* name = "v1.loops";
    static constexpr bool framed = false, is_v2 = false;
    static Lib make(Chooser& c)
    {
        Lib v;
        size_t n = c.count(8, {0, 1, 2, 7, 9, 12});
        v.loops.resize(n);
        for (size_t i = 0; i < n; ++i)
            if (i % 3 == 1) v.loops[i] = dj::loop{"Loop " + std::to_string(i + 1), 500.25 * (double)(i + 1), 500.25 * (double)(i + 1) + 4000, col((uint8_t)(40 + i), (uint8_t)(50 + i), (uint8_t)(60 + i), 255)};
        for (int which = 0; which < 3; ++which)
        {
            std::optional<dj::loop> dummy, *q = &dummy;
            size_t idx = which == 0 ? 0 : which == 1 ? 1 : (n ? n - 1 : 0);
            if (idx < n) q = &v.loops[idx];
            int pres = c.pick(2);  // toggle presence
            if (pres) { if (*q) q->reset(); else *q = dj::loop{"New", 77.5, 99.5, col(1, 2, 3, 4)}; }
            dj::loop l = q->value_or(dj::loop{});
            l.label = c.label(l.label);
            l.start_sample_offset = c.dbl(l.start_sample_offset);
            l.end_sample_offset = c.dbl(l.end_sample_offset);
            l.color.a = c.u8(l.color.a);
            l.color.r = c.u8(l.color.r);
            l.color.g = c.u8(l.color.g);
            l.color.b = c.u8(l.color.b);
            if (*q) *q = l;
        }
        return v;
    }
    static ByteVec enc(const Lib& v) { return v.encode(); }
    static Lib dec(const ByteVec& b) { return Lib::decode(b); }
    static Ref to_ref(const Lib& v)
    {
        Ref r;
        for (auto& l : v.loops)
            r.loops.push_back(l ? ref::Loop{l->label, l->start_sample_offset, l->end_sample_offset, 1, 1, l->color.a, l->color.r, l->color.g, l->color.b} : ref::Loop{});
        return r;
    }
    static Lib norm(Lib v)
    {
        for (auto& l : v.loops)
            if (l && l->start_sample_offset == -1) l.reset();  // reserved empty-slot encoding
        return v;
    }
    static bool must_accept(const Lib& v)
    {
        for (auto& l : v.loops)
            if (l && (l->label.empty() || l->label.size() > 255)) return false;
        return true;
    }
};
struct V1Cues
{
    using Lib = v1::quick_cues_data;
    using Ref = ref::QuickCues;
    static constexpr const char* name = "v1.quick_cues";
    static constexpr bool framed = true, is_v2 = false;
    static Lib make(Chooser& c)
    {
        Lib v;
        size_t n = c.count(8, {0, 1, 2, 7, 9, 12});
        v.hot_cues.resize(n);
        for (size_t i = 0; i < n; ++i)
            if (i % 3 == 0) v.hot_cues[i] = dj::hot_cue{"Cue " + std::to_string(i + 1), 1000.5 * (double)(i + 1), col((uint8_t)(10 + i), (uint8_t)(20 + i), (uint8_t)(30 + i), 255)};
        for (int which = 0; which < 3; ++which)
        {
            std::optional<dj::hot_cue> dummy, *q = &dummy;
            size_t idx = which == 0 ? 0 : which == 1 ? 1 : (n ? n - 1 : 0);
            if (idx < n) q = &v.hot_cues[idx];
            int pres = c.pick(2);
            if (pres) { if (*q) q->reset(); else *q = dj::hot_cue{"New", 77.5, col(1, 2, 3, 4)}; }
            dj::hot_cue h = q->value_or(dj::hot_cue{});
            h.label = c.label(h.label);
            h.sample_offset = c.dbl(h.sample_offset);
            h.color.a = c.u8(h.color.a);
            h.color.r = c.u8(h.color.r);
            h.color.g = c.u8(h.color.g);
            h.color.b = c.u8(h.color.b);
            if (*q) *q = h;
        }
        v.adjusted_main_cue = c.dbl(2345.5);
        v.default_main_cue = c.dbl(2000.25);
        return v;
    }
    static ByteVec enc(const Lib& v) { return v.encode(); }
    static Lib dec(const ByteVec& b) { return Lib::decode(b); }
    static Ref to_ref(const Lib& v)
    {
        Ref r;
        for (auto& h : v.hot_cues) r.cues.push_back(h ? ref::Cue{h->label, h->sample_offset, h->color.a, h->color.r, h->color.g, h->color.b} : ref::Cue{});
        r.adjusted_main = v.adjusted_main_cue;
        r.is_adjusted = v.adjusted_main_cue == v.default_main_cue ? 0 : 1;
        r.default_main = v.default_main_cue;
        return r;
    }
    static Lib norm(Lib v)
    {
        for (auto& h : v.hot_cues)
            if (h && h->sample_offset == -1) h.reset();
        return v;
    }
    static bool must_accept(const Lib& v)
    {
        for (auto& h : v.hot_cues)
            if (h && (h->label.empty() || h->label.size() > 255)) return false;
        return true;
    }
};
struct V1Track
{
    using Lib = v1::track_data;
    using Ref = ref::TrackData1;
    static constexpr const char* name = "v1.track_data";
    static constexpr bool framed = true, is_v2 = false;
    static Lib make(Chooser& c)
    {
        Lib v;
        v.sample_rate = opt_dbl(c, 48000);
        v.sample_count = opt_pick<int64_t>(c, 9600000, {0, 1, -1, INT64_MIN, INT64_MAX, 1ll << 32});
        v.average_loudness = opt_dbl(c, 0.5);
        v.key = opt_pick<dj::musical_key>(c, dj::musical_key::a_minor, {dj::musical_key::c_major, dj::musical_key::d_minor, dj::musical_key::f_major});
        return v;
    }
    static ByteVec enc(const Lib& v) { return v.encode(); }
    static Lib dec(const ByteVec& b) { return Lib::decode(b); }
    static Ref to_ref(const Lib& v)
    {
        Ref r;
        r.sample_rate = v.sample_rate.value_or(0);
        r.samples = v.sample_count.value_or(0);
        r.loudness = v.average_loudness.value_or(0);
        r.key = v.key ? (int32_t)*v.key : 0;
        return r;
    }
    // 0 is the layout's "no value" for rate, count and loudness; for the key it collides with c_major (reported separately).
    static Lib norm(Lib v)
    {
        if (v.sample_rate && is_zero(*v.sample_rate)) v.sample_rate.reset();
        if (v.sample_count && *v.sample_count == 0) v.sample_count.reset();
        if (v.average_loudness && is_zero(*v.average_loudness)) v.average_loudness.reset();
        return v;
    }
    static bool must_accept(const Lib&) { return true; }
};

// Decode under the inflate-call horizon: a decompression loop that does not terminate throws seam::HorizonExceeded
// (not a std::exception) after more calls than any stream of that size can need.
inline long inflate_horizon(size_t compressed_size) { return 64 + 2 * (long)(compressed_size / 16384) + (long)(compressed_size / 14); }
template <class T>
inline typename T::Lib guarded_dec(const ByteVec& b)
{
    vx::seam::InflateArm arm(inflate_horizon(b.size()));
    return T::dec(b);
}

// Run fn(Tag<Traits>{}) for each of the eleven codecs (C++17: generic lambda with `using T = typename decltype(tag)::type`).
template <class T>
struct Tag
{
    using type = T;
};
template <class F>
inline void for_each_codec(F&& fn)
{
    fn(Tag<V2Beat>{});
    fn(Tag<V2Cues>{});
    fn(Tag<V2Loops>{});
    fn(Tag<V2Overview>{});
    fn(Tag<V2Track>{});
    fn(Tag<V1Beat>{});
    fn(Tag<V1HighRes>{});
    fn(Tag<V1Loops>{});
    fn(Tag<V1Overview>{});
    fn(Tag<V1Cues>{});
    fn(Tag<V1Track>{});
}
constexpr int NUM_CODECS = 11;
template <class F>
inline void with_codec(int idx, F&& fn)
{
    int i = 0;
    for_each_codec([&](auto tag) { if (i++ == idx) fn(tag); });
}
}  // namespace cod
