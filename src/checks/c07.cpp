// C07 — all crate queries describe one well-formed forest. Shape (S): BFS over create_root / create_sub / set_name /
// set_parent (to every crate incl. self and descendants, and to none) / remove_crate with <= 4 live crates.
#include <algorithm>
#include <set>

#include "model/explore.hpp"

namespace
{
using namespace vx;
using namespace wm;

const std::vector<std::string> VALID_NAMES = {"a", "b"};
const std::vector<std::string> INVALID_NAMES = {"", "x;y"};
constexpr int MAX_LIVE = 4, MAX_CREATED = 5;

struct CrateM
{
    bool live = false;
    std::string name;
    int parent = -1;
    int64_t id = 0;
};
struct Forest
{
    std::vector<CrateM> c;
    std::string dump_hash;
    int live_count() const { return (int)std::count_if(c.begin(), c.end(), [](const CrateM& x) { return x.live; }); }
    bool is_descendant(int x, int anc) const  // x strictly below anc
    {
        for (int p = c[x].parent, guard = 0; p >= 0 && guard < 64; p = c[p].parent, ++guard)
            if (p == anc) return true;
        return false;
    }
    bool sibling_name_taken(int parent, const std::string& name, int except) const
    {
        for (int k = 0; k < (int)c.size(); ++k)
            if (k != except && c[k].live && c[k].parent == parent && c[k].name == name) return true;
        return false;
    }
    int index_of_id(int64_t id) const
    {
        for (int k = 0; k < (int)c.size(); ++k)
            if (c[k].live && c[k].id == id) return k;
        return -1;
    }
};

std::string ids_str(std::vector<int64_t> v)
{
    std::sort(v.begin(), v.end());
    std::string s = "{";
    for (size_t k = 0; k < v.size(); ++k) s += (k ? "," : "") + std::to_string(v[k]);
    return s + "}";
}
std::vector<int64_t> ids_of(const std::vector<dj::crate>& v)
{
    std::vector<int64_t> r;
    for (auto& x : v) r.push_back(x.id());
    return r;
}

// 2.x: a playlist row written through the public table API with is_persisted = false (a row the high-level API never writes, but reads):
// whatever the crate queries make of it, they must all make the same of it
void op_pl_add_raw(World& w, const Op& op)
{
    namespace v2 = djinterop::engine::v2;
    v2::playlist_row row{v2::PLAYLIST_ROW_ID_NONE, op.s.at(0), op.i.at(0) < 0 ? v2::PARENT_LIST_ID_NONE : w.crates.at((size_t)op.i.at(0)).id(), false, v2::PLAYLIST_ROW_ID_NONE,
                         std::chrono::system_clock::time_point{std::chrono::seconds{1700000000}}, false};
    int64_t id = w.lib2->playlist().add(row);
    auto c = w.db.crate_by_id(id);
    if (!c) throw std::runtime_error("crate_by_id does not find the playlist row just added through the table API");
    w.crates.push_back(*c);
}
struct RegisterRawOps
{
    RegisterRawOps() { World::register_op("pl_add_raw", op_pl_add_raw); }
} register_raw_ops;

struct Dom
{
    using Model = Forest;
    static void init(Model& m, World& w) { m.dump_hash = hash128(w.dump()); }
    // stale handles are part of the state: the ids of removed crates (a recycled id must not make them valid again)
    static void visit(World&, Model&, const std::string&, Agg&) {}
    static std::string key_extra(const Model& m)
    {
        std::vector<int64_t> dead;
        for (auto& x : m.c)
            if (!x.live) dead.push_back(x.id);
        return "|dead=" + ids_str(dead);
    }
    static std::vector<std::string> seeds(eng::engine_schema sch)
    {
        if (is_v2(sch))
            return {"", "create_root(|a);remove_crate(0)", "@2:create_root(|a);create_sub(0|b);create_sub(1|a);create_sub(2|b)", "@1:create_root(|a);create_sub(0|a);create_sub(0|b)",
                    // a non-persisted sub-crate and a non-persisted root next to ordinary ones
                    "@1:create_root(|a);pl_add_raw(0|b);pl_add_raw(-1|b)"};
        // the empty library, and one in which a crate was created and removed again (so ids and rowids are offset)
        // and two forests that the depth bound alone does not reach in the quick tier: a chain of four and a root with two children
        return {"", "create_root(|a);remove_crate(0)", "@2:create_root(|a);create_sub(0|b);create_sub(1|a);create_sub(2|b)", "@1:create_root(|a);create_sub(0|a);create_sub(0|b)"};
    }
    static std::vector<Op> alphabet(const Model& m, const World&, int)
    {
        std::vector<Op> ops;
        std::vector<int> live;
        for (int k = 0; k < (int)m.c.size(); ++k)
            if (m.c[k].live) live.push_back(k);
        bool can_create = (int)live.size() < MAX_LIVE && (int)m.c.size() < MAX_CREATED;
        auto names = [&](bool creating) {
            std::vector<std::string> n = INVALID_NAMES;
            if (!creating || can_create) n.insert(n.begin(), VALID_NAMES.begin(), VALID_NAMES.end());
            return n;
        };
        for (auto& n : names(true)) ops.push_back(Op{"create_root", {}, {n}});
        for (int p : live)
            for (auto& n : names(true)) ops.push_back(Op{"create_sub", {p}, {n}});
        for (int c : live)
            for (auto& n : names(false)) ops.push_back(Op{"set_name", {c}, {n}});
        for (int c : live)
        {
            ops.push_back(Op{"set_parent", {c, -1}, {}});
            for (int p : live) ops.push_back(Op{"set_parent", {c, p}, {}});
        }
        for (int c : live) ops.push_back(Op{"remove_crate", {c}, {}});
        return ops;
    }

    static bool step(World& w, Model& m, const Op& op, const Outcome& r, Agg& a, const std::string& cid, bool checking)
    {
        const std::string fam = w.v2 ? "v2" : "v1";
        bool healthy = true;
        auto viol = [&](const std::string& inv, const std::string& what) {
            healthy = false;
            if (checking) a.violation(fam + "|" + op.f + "|" + inv, "[" + schema_name(w.schema) + "] after " + op.str() + ": " + what, cid);
        };
        const std::string before_hash = m.dump_hash;
        std::string now_hash = hash128(w.dump());
        const bool unchanged = now_hash == before_hash;
        m.dump_hash = now_hash;
        if (checking) a.count("op." + op.f + (r.ok ? ".ok" : ".rejected"));
        if (!r.ok && !r.std_ex) viol("non_std_exception", "threw " + r.ex_type + ", which is not derived from std::exception");
        auto must_reject = [&](const std::string& why, const std::string& want_type) {
            if (r.ok) viol("accepted_" + why, "operation was accepted although " + why);
            else
            {
                if (!want_type.empty() && r.ex_type.find(want_type) == std::string::npos) viol("wrong_exception_for_" + why, "threw " + r.ex_type + " instead of " + want_type);
                if (!unchanged) viol("rejected_but_state_changed", "operation threw (" + r.ex_type + ") but the database content changed");
            }
        };
        auto must_succeed = [&](const std::string& what) {
            if (!r.ok) viol("rejected_valid_operation", what + " was rejected: " + r.ex_type + ": " + r.what);
        };
        auto either = [&]() {
            if (!r.ok && !unchanged) viol("rejected_but_state_changed", "operation threw (" + r.ex_type + ") but the database content changed");
            if (checking) a.count(std::string("open_choice.") + op.f + (r.ok ? ".accepted" : ".rejected"));
        };
        auto valid_name = [](const std::string& n) { return !n.empty() && n.find(';') == std::string::npos; };

        if (op.f == "create_root" || op.f == "create_sub" || op.f == "pl_add_raw")
        {
            int parent = op.f == "create_root" ? -1 : (int)op.i[0];
            const std::string& n = op.s[0];
            if (!valid_name(n)) must_reject("invalid_name", "")  /* the statement fixes no exception type; crate_invalid_name is what the library documents */;
            else if (m.sibling_name_taken(parent, n, -1)) either();
            else must_succeed("creating a crate with a valid, unused name");
            if (r.ok)
            {
                CrateM nc;
                nc.live = true;
                nc.name = n;
                nc.parent = parent;
                nc.id = w.crates.back().id();
                for (auto& x : m.c)
                    if (x.live && x.id == nc.id) viol("id_collision", "new crate received id " + std::to_string(nc.id) + " of a live crate");
                m.c.push_back(nc);
            }
        }
        else if (op.f == "set_name")
        {
            int c = (int)op.i[0];
            const std::string& n = op.s[0];
            if (!valid_name(n)) must_reject("invalid_name", "")  /* the statement fixes no exception type; crate_invalid_name is what the library documents */;
            else if (m.sibling_name_taken(m.c[c].parent, n, c)) either();
            else must_succeed("renaming to a valid name unused among the siblings");
            if (r.ok) m.c[c].name = n;
        }
        else if (op.f == "set_parent")
        {
            int c = (int)op.i[0], p = (int)op.i[1];
            if (p == c || (p >= 0 && m.is_descendant(p, c))) must_reject(p == c ? "self_parent" : "cycle", "");
            else if (p != m.c[c].parent && m.sibling_name_taken(p, m.c[c].name, c)) either();
            else must_succeed("re-parenting to a non-descendant without a name clash");
            if (r.ok) m.c[c].parent = p;
        }
        else if (op.f == "remove_crate")
        {
            int c = (int)op.i[0];
            must_succeed("removing a live crate");
            if (r.ok)
            {
                m.c[c].live = false;
                // The statement does not fix what happens to the subtree: whatever survives must still be a consistent forest.
                for (int k = 0; k < (int)m.c.size(); ++k)
                    if (m.c[k].live && m.is_descendant(k, c))
                    {
                        bool valid = true;
                        try { valid = w.crates[k].is_valid(); } catch (...) {}
                        if (!valid) m.c[k].live = false;
                    }
                // survivors whose parent died: the model expects them to have become roots or to be gone; anything else is caught by the invariants
            }
        }
        if (!checking) return healthy;

        // ------------------------------------------------------------------ invariants on the resulting state (public API only)
        a.count("states_checked");
        try
        {
            std::vector<int> live;
            for (int k = 0; k < (int)m.c.size(); ++k)
                if (m.c[k].live) live.push_back(k);
            std::vector<int64_t> live_ids;
            for (int k : live) live_ids.push_back(m.c[k].id);
            {
                auto s = live_ids;
                std::sort(s.begin(), s.end());
                if (std::adjacent_find(s.begin(), s.end()) != s.end()) viol("live_ids_collide", "two live crates share an id: " + ids_str(live_ids));
            }
            auto all = ids_of(w.db.crates());
            if (ids_str(all) != ids_str(live_ids) || all.size() != live_ids.size()) viol("crates_listing", "crates() = " + ids_str(all) + " (" + std::to_string(all.size()) + " entries), expected " + ids_str(live_ids));
            for (int k : live)
            {
                auto& h = w.crates[k];
                std::string who = "crate " + std::to_string(m.c[k].id);
                if (h.id() != m.c[k].id) viol("id_changed", who + " now reports id " + std::to_string(h.id()));
                if (!h.is_valid()) { viol("live_crate_invalid", who + " is_valid() == false"); continue; }
                std::string nm = h.name();
                if (nm != m.c[k].name) viol("name", who + " name() = '" + nm + "', expected '" + m.c[k].name + "'");
                auto par = h.parent();
                int mp = m.c[k].parent;
                if (mp >= 0 && !m.c[mp].live)
                {
                    // parent was removed: the crate must have become a root (or its parent() names a live crate)
                    if (par && m.index_of_id(par->id()) < 0) viol("parent_not_live", who + " parent() = " + std::to_string(par->id()) + ", which is not a live crate");
                    else m.c[k].parent = par ? m.index_of_id(par->id()) : -1;
                    mp = m.c[k].parent;
                }
                else if ((par ? par->id() : -1) != (mp >= 0 ? m.c[mp].id : -1))
                    viol("parent", who + " parent() = " + (par ? std::to_string(par->id()) : "none") + ", expected " + (mp >= 0 ? std::to_string(m.c[mp].id) : "none"));
            }
            auto expect_children = [&](int p) {
                std::vector<int64_t> v;
                for (int k : live)
                    if (m.c[k].parent == p) v.push_back(m.c[k].id);
                return v;
            };
            auto expect_desc = [&](int p) {
                std::vector<int64_t> v;
                for (int k : live)
                    if (m.is_descendant(k, p)) v.push_back(m.c[k].id);
                return v;
            };
            for (int k : live)
            {
                auto& h = w.crates[k];
                if (!h.is_valid()) continue;
                std::string who = "crate " + std::to_string(m.c[k].id);
                auto ch = ids_of(h.children());
                auto ec = expect_children(k);
                if (ids_str(ch) != ids_str(ec) || ch.size() != ec.size()) viol("children", who + " children() = " + ids_str(ch) + " (" + std::to_string(ch.size()) + "), expected " + ids_str(ec));
                auto de = ids_of(h.descendants());
                auto ed = expect_desc(k);
                if (ids_str(de) != ids_str(ed) || de.size() != ed.size()) viol("descendants", who + " descendants() = " + ids_str(de) + " (" + std::to_string(de.size()) + "), expected " + ids_str(ed));
                auto byid = w.db.crate_by_id(m.c[k].id);
                if (!byid || byid->id() != m.c[k].id) viol("crate_by_id", "crate_by_id(" + std::to_string(m.c[k].id) + ") does not return the live crate");
                for (auto& n : VALID_NAMES)
                {
                    std::vector<int64_t> cand;
                    for (int x : live)
                        if (m.c[x].parent == k && m.c[x].name == n) cand.push_back(m.c[x].id);
                    auto sub = h.sub_crate_by_name(n);
                    if (cand.empty() ? sub.has_value() : (!sub || std::find(cand.begin(), cand.end(), sub->id()) == cand.end()))
                        viol("sub_crate_by_name", who + " sub_crate_by_name('" + n + "') = " + (sub ? std::to_string(sub->id()) : "none") + ", expected one of " + ids_str(cand));
                }
            }
            auto roots = ids_of(w.db.root_crates());
            auto er = expect_children(-1);
            if (ids_str(roots) != ids_str(er) || roots.size() != er.size()) viol("root_crates", "root_crates() = " + ids_str(roots) + " (" + std::to_string(roots.size()) + "), expected " + ids_str(er));
            for (auto& n : VALID_NAMES)
            {
                std::vector<int64_t> named, named_roots;
                for (int x : live)
                    if (m.c[x].name == n)
                    {
                        named.push_back(m.c[x].id);
                        if (m.c[x].parent < 0) named_roots.push_back(m.c[x].id);
                    }
                auto got = ids_of(w.db.crates_by_name(n));
                if (ids_str(got) != ids_str(named) || got.size() != named.size()) viol("crates_by_name", "crates_by_name('" + n + "') = " + ids_str(got) + ", expected " + ids_str(named));
                auto rb = w.db.root_crate_by_name(n);
                if (named_roots.empty() ? rb.has_value() : (!rb || std::find(named_roots.begin(), named_roots.end(), rb->id()) == named_roots.end()))
                    viol("root_crate_by_name", "root_crate_by_name('" + n + "') = " + (rb ? std::to_string(rb->id()) : "none") + ", expected one of " + ids_str(named_roots));
            }
            for (int k = 0; k < (int)m.c.size(); ++k)
            {
                if (m.c[k].live) continue;
                auto& h = w.crates[k];
                bool recycled = m.index_of_id(m.c[k].id) >= 0;
                if (h.id() != m.c[k].id) viol("id_changed", "removed crate handle changed id");
                if (h.is_valid())
                {
                    if (recycled)
                    {
                        // persistent condition (it holds in every later state too): reported under an operation-independent key and the state is still expanded
                        if (checking) a.violation(fam + "|*|removed_crate_id_recycled", "[" + schema_name(w.schema) + "] after " + op.str() + ": handle of removed crate " + std::to_string(m.c[k].id) + " reports is_valid() == true again because its id was given to a new crate", cid);
                    }
                    else
                        viol("removed_crate_still_valid", "handle of removed crate " + std::to_string(m.c[k].id) + " reports is_valid() == true");
                }
                if (!recycled)
                {
                    if (w.db.crate_by_id(m.c[k].id)) viol("removed_crate_returned", "crate_by_id returns removed crate " + std::to_string(m.c[k].id));
                }
            }
        }
        catch (const std::exception& e)
        {
            viol("query_throws", std::string("a structural query threw: ") + e.what());
        }
        if (healthy) a.count("validated");
        int depth = 0;
        for (int k = 0; k < (int)m.c.size(); ++k)
            if (m.c[k].live)
            {
                int d = 1;
                for (int p = m.c[k].parent; p >= 0 && d < 10; p = m.c[p].parent) ++d;
                depth = std::max(depth, d);
            }
        if (depth >= 2) a.seen("deep_states", now_hash);
        return healthy;
    }
};

int run(const Options& o)
{
    Evidence ev(o, "model_checking");
    Reporter rep(o.property, build_variant());
    Agg total;
    const double t0 = now_s();
    if (!o.only.empty())
    {
        ex::replay<Dom>(o.only, rep, total);
        for (auto& kv : rep.firsts()) printf("  %s: %s\n", kv.first.c_str(), kv.second.what.c_str());
        return rep.finish();
    }
    ex::Cfg cfg;
    cfg.schemas = all_schemas();
    if (const char* e = getenv("VX_SCHEMAS"))
    {
        cfg.schemas.clear();
        for (auto& n : split(e, ','))
            if (auto s = schema_by_name(n)) cfg.schemas.push_back(*s);
    }
    cfg.depth = o.quick() ? 3 : 5;
    if (o.quick())
        for (auto n : {"1.6.0", "1.9.1", "1.18.0-os", "2.18.0", "2.21.2"}) cfg.depth_override[n] = 4;
    else
        for (auto n : {"1.6.0", "1.18.0-os", "2.18.0", "2.21.2"}) cfg.depth_override[n] = 6;
    if (const char* e = getenv("VX_DEPTH")) { cfg.depth = atoi(e); cfg.depth_override.clear(); }
    cfg.deadline_abs = t0 + (o.deadline_s > 0 ? o.deadline_s : (o.quick() ? 280 : 3000));
    auto st = ex::explore<Dom>(o, cfg, rep, total);
    rep.set_counts(total.vcount);
    bool exhaustive = !st.deadline_hit;
    for (auto& kv : st.depth_by_schema)
    {
        auto it = cfg.depth_override.find(kv.first);
        if (kv.second < (it == cfg.depth_override.end() ? cfg.depth : it->second)) exhaustive = false;
    }
    auto& c = ev.cov();
    c["states"] = st.states;
    c["transitions"] = st.transitions;
    c["traces_validated_against_impl"] = total.get("validated");
    c["evaluations"] = st.transitions;
    c["distinct_nontrivial"] = total.ndistinct("deep_states");
    c["rule"] =
        "Explicit-state BFS on the real library for each schema version. Alphabet in every state: create_root_crate(n), create_sub_crate(p,n) for every live p, set_name(c,n), "
        "set_parent(c,p) for every live p (including c itself and every descendant) and for none, remove_crate(c); names n in {a, b, '', 'x;y'}; at most 4 live / 5 created crates; "
        "seeds: empty library, a library in which a crate was created and removed, a chain of four crates (entering two levels late), a root with two children (one level late) and, on 2.x, a forest with a sub-crate and a root whose rows were written through the table API with is_persisted = false. After every transition the reference forest (id -> name, parent) is compared with crates(), "
        "parent(), name(), children(), descendants(), root_crates(), crate_by_id, crates_by_name, root_crate_by_name, sub_crate_by_name, is_valid()/id() of live and removed handles. "
        "A state is the canonical dump of all tables; non-trivial = distinct states whose forest has depth >= 2. States that violate the property are reported and not expanded further.";
    c["exhaustive"] = exhaustive;
    Json b = Json::object();
    b["depth"] = cfg.depth;
    Json dbs = Json::object();
    for (auto& kv : st.depth_by_schema) dbs[kv.first] = kv.second;
    b["depth_completed_by_schema"] = dbs;
    b["deadline_hit"] = st.deadline_hit;
    b["states_not_expanded_because_violating"] = st.unhealthy;
    c["bounds"] = b;
    c["counters"] = total.counters_json();
    for (auto& h : st.sample_histories) ev.sample(Json(h));
    if (st.sample_histories.empty()) ev.sample(Json("(no history of length >= 2 was reached)"));
    ev.assumption("duplicate sibling names: acceptance is left open by the statement (2.x rejects, 1.x accepts); either way the call must be all-or-nothing");
    ev.assumption("the fate of the subtree of a removed crate is not fixed by the statement; whatever survives must satisfy every invariant");
    for (auto& h : total.harness_errors) fprintf(stderr, "harness error: %s\n", h.c_str());
    int bad = rep.finish();
    if (!total.harness_errors.empty()) bad = -1;
    ev.write(bad < 0 ? 0 : bad, rep.known_hits());
    printf("C07 %s: states=%lld transitions=%lld validated=%lld unhealthy_states=%lld exhaustive=%d wall=%.1fs\n", o.tier.c_str(), st.states, st.transitions, total.get("validated"), st.unhealthy,
           (int)exhaustive, now_s() - t0);
    return bad;
}
Registrar reg({"C07", "san", "opt", run});
}  // namespace
