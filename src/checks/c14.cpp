// C14 — a failed mutating call leaves no partial update. Shape (E) on top of (S): in every distinct prior state of the
// composite exploration, every public mutating operation is first run fault-free to count its statement executions W,
// then re-run W x 2 times with execution k = 0..W-1 forced to fail (F1: SQLITE_FULL returned without running the
// statement; F2: the statement is interrupted inside SQLite through the progress handler).
#include "model/composite.hpp"

namespace
{
using namespace vx;
using namespace wm;

// ---- the schema-2.x table API is public too: its mutating calls, driven on the rows of the crates and tracks of the state
namespace v2 = djinterop::engine::v2;
void op_pl_update(World& w, const Op& op)
{
    // i = {crate, mode, other}: mode 0 = re-order after sibling `other` (-1: to the end), 1 = move under `other` (-1: to the root), 2 = rename in place, 3 = re-order and rename
    auto pl = w.lib2->playlist();
    auto row = *pl.get(w.crates.at((size_t)op.i.at(0)).id());
    long long mode = op.i.at(1), other = op.i.at(2);
    // next_list_id names the successor: "after sibling o" means taking o's successor
    if (mode == 0 || mode == 3) row.next_list_id = other < 0 ? v2::PLAYLIST_ROW_ID_NONE : w.crates.at((size_t)other).id();
    if (mode == 1) { row.parent_list_id = other < 0 ? v2::PARENT_LIST_ID_NONE : w.crates.at((size_t)other).id(); row.next_list_id = v2::PLAYLIST_ROW_ID_NONE; }
    if (mode == 2 || mode == 3) row.title = op.s.at(0);
    pl.update(row);
}
void op_pl_add(World& w, const Op& op)
{
    auto pl = w.lib2->playlist();
    v2::playlist_row row{v2::PLAYLIST_ROW_ID_NONE, op.s.at(0), op.i.at(0) < 0 ? v2::PARENT_LIST_ID_NONE : w.crates.at((size_t)op.i.at(0)).id(), true,
                         op.i.at(1) < 0 ? v2::PLAYLIST_ROW_ID_NONE : w.crates.at((size_t)op.i.at(1)).id(), std::chrono::system_clock::time_point{std::chrono::seconds{1700000000}}, true};
    pl.add(row);
}
void op_pl_remove(World& w, const Op& op) { w.lib2->playlist().remove(w.crates.at((size_t)op.i.at(0)).id()); }
void op_pe_add_back(World& w, const Op& op)
{
    v2::playlist_entity_row row{v2::PLAYLIST_ENTITY_ROW_ID_NONE, w.crates.at((size_t)op.i.at(0)).id(), w.tracks.at((size_t)op.i.at(1)).id(), w.uuid, 0, 0};
    w.lib2->playlist_entity().add_back(row, op.i.at(2) != 0);
}
void op_pe_remove(World& w, const Op& op) { w.lib2->playlist_entity().remove(w.crates.at((size_t)op.i.at(0)).id(), w.tracks.at((size_t)op.i.at(1)).id()); }
void op_pe_clear(World& w, const Op& op) { w.lib2->playlist_entity().clear(w.crates.at((size_t)op.i.at(0)).id()); }
void op_tt_update(World& w, const Op& op)
{
    auto tt = w.lib2->track();
    auto row = *tt.get(w.tracks.at((size_t)op.i.at(0)).id());
    row.title = std::string("table-level title");
    row.rating = 60;
    if (op.i.at(1) >= 0) { auto other = *tt.get(w.tracks.at((size_t)op.i.at(1)).id()); row.path = other.path; }  // collides with the UNIQUE path: fails by itself
    tt.update(row);
}
void op_tt_add(World& w, const Op& op)
{
    auto tt = w.lib2->track();
    auto row = *tt.get(w.tracks.at((size_t)op.i.at(0)).id());
    row.id = v2::TRACK_ROW_ID_NONE;
    if (op.i.at(1) == 0) { row.path = "table/added.mp3"; row.filename = "added.mp3"; }
    row.origin_track_id = 0;
    tt.add(row);
}
void op_tt_remove(World& w, const Op& op) { w.lib2->track().remove(w.tracks.at((size_t)op.i.at(0)).id()); }
struct RegisterTableOps
{
    RegisterTableOps()
    {
        World::register_op("t14_pl_update", op_pl_update); World::register_op("t14_pl_add", op_pl_add); World::register_op("t14_pl_remove", op_pl_remove);
        World::register_op("t14_pe_add_back", op_pe_add_back); World::register_op("t14_pe_remove", op_pe_remove); World::register_op("t14_pe_clear", op_pe_clear);
        World::register_op("t14_tt_update", op_tt_update); World::register_op("t14_tt_add", op_tt_add); World::register_op("t14_tt_remove", op_tt_remove);
    }
} register_table_ops;

struct Dom : CompositeBase
{
    // two more prior states: crates of the same name under different parents (a move of one under the other's parent fails at the
    // schema's UNIQUE (title, parent) constraint - 2.x - in the LAST statement of the re-linking sequence)
    static std::vector<std::string> seeds(eng::engine_schema s)
    {
        auto v = CompositeBase::seeds(s);
        v.push_back("create_root(|x);create_sub(0|y);create_root(|y);create_root(|z);create_track(2);add_track(2,0)");
        return v;
    }
    static bool step(World& w, Model& m, const Op& op, const Outcome& r, Agg& a, const std::string&, bool checking)
    {
        advance(m, op, r, w);
        if (checking) a.count("explore." + op.f + (r.ok ? ".ok" : ".rejected"));
        return true;
    }
    // every public mutating operation applicable in this state
    static std::vector<Op> mutating_ops(const Model& m, const World& w)
    {
        auto ops = CompositeBase::alphabet(m, w, 0);
        std::vector<int> lt, lc;
        for (int k = 0; k < (int)m.t.size(); ++k)
            if (m.t[k]) lt.push_back(k);
        for (int k = 0; k < (int)m.c.size(); ++k)
            if (m.c[k].live) lc.push_back(k);
        for (int t : lt)
        {
            for (auto& f : fields())
            {
                if (!f.has_setter) continue;
                // one ordinary value per field (index 2 where it exists, else the last one), plus "absent" (index 0)
                size_t ord = f.values.size() > 2 ? 2 : f.values.size() - 1;
                ops.push_back(Op{"set", {t, (long long)ord}, {f.name}});
                if (f.name != "relative_path" && f.name != "title" && f.name != "hot_cues" && f.name != "rating") ops.push_back(Op{"set", {t, 0}, {f.name}});
            }
            ops.push_back(Op{"set_slot", {t, 1, 3}, {"hot_cue_at"}});
            ops.push_back(Op{"set_slot", {t, 1, 7}, {"loop_at"}});
        }
        if (w.v2 && !lc.empty())
        {
            ops.push_back(Op{"create_root_after", {lc[0]}, {"after" + std::to_string(m.names)}});
            for (int c : lc)
                if (m.c[c].parent >= 0) { ops.push_back(Op{"create_sub_after", {m.c[c].parent, c}, {"after" + std::to_string(m.names)}}); break; }
        }
        for (int c : lc)
            for (int t : lt)
                if (!m.mem.count({c, t})) { ops.push_back(Op{"add_track_id", {c, t}, {}}); break; }
        // calls that a constraint of the schema may refuse by itself (names and paths that are already taken): whether they are
        // refused is open (1.x accepts duplicate names); if refused, that is a failing statement without any injection
        auto name_of = [&](int c) { try { return w.crates.at((size_t)c).name(); } catch (...) { return std::string(); } };
        for (int c : lc)
            for (int d : lc)
            {
                if (c == d) continue;
                const std::string nd = name_of(d);
                if (nd.empty()) continue;
                if (m.c[c].parent == m.c[d].parent) ops.push_back(Op{"set_name", {c}, {nd}});                                   // rename onto a sibling
                else if (name_of(c) == nd && d != m.c[c].parent && m.c[d].parent != c && (m.c[d].parent < 0 || !m.below(m.c[d].parent, c)))
                    ops.push_back(Op{"set_parent", {c, m.c[d].parent}, {}});                                                  // move next to a namesake
                if (m.c[d].parent < 0) ops.push_back(Op{"create_root", {}, {nd}});
                else ops.push_back(Op{"create_sub", {m.c[d].parent}, {nd}});
            }
        for (int t : lt)
            for (int u : lt)
                if (t != u) { ops.push_back(Op{"update_tag", {t, 3, u}, {}}); ops.push_back(Op{"update_tag", {t, 1, u}, {}}); }
        for (int u : lt) ops.push_back(Op{"create_track_tag", {2, u}, {}});
        if (w.v2 && w.lib2)
        {
            // the table API's own mutating calls on the same rows
            for (int c : lc)
            {
                // re-order: to the end, and in front of every sibling (the sibling becomes the successor); move under every other live crate and to the root
                ops.push_back(Op{"t14_pl_update", {c, 0, -1}, {}});
                for (int d : lc)
                {
                    if (d == c) continue;
                    if (m.c[d].parent == m.c[c].parent)
                    {
                        ops.push_back(Op{"t14_pl_update", {c, 0, d}, {}});
                        std::string nd;
                        try { nd = w.crates.at((size_t)d).name(); } catch (...) {}
                        if (!nd.empty()) ops.push_back(Op{"t14_pl_update", {c, 3, d}, {nd}});  // re-order and take the sibling's title: the last statement fails by itself
                    }
                    else if (!m.below(d, c)) ops.push_back(Op{"t14_pl_update", {c, 1, d}, {}});
                }
                if (m.c[c].parent >= 0) ops.push_back(Op{"t14_pl_update", {c, 1, -1}, {}});
                ops.push_back(Op{"t14_pl_update", {c, 2, -1}, {"renamed at table level"}});
                ops.push_back(Op{"t14_pl_remove", {c}, {}});
                ops.push_back(Op{"t14_pl_add", {c, -1}, {"table child"}});
                ops.push_back(Op{"t14_pe_clear", {c}, {}});
                for (int t : lt)
                {
                    ops.push_back(Op{"t14_pe_add_back", {c, t, 0}, {}});
                    ops.push_back(Op{"t14_pe_add_back", {c, t, 1}, {}});
                    ops.push_back(Op{"t14_pe_remove", {c, t}, {}});
                }
            }
            ops.push_back(Op{"t14_pl_add", {-1, -1}, {"table root"}});
            if (!lc.empty()) ops.push_back(Op{"t14_pl_add", {m.c[lc[0]].parent, lc[0]}, {"table before"}});
            for (int t : lt)
            {
                ops.push_back(Op{"t14_tt_update", {t, -1}, {}});
                for (int u : lt)
                    if (u != t) { ops.push_back(Op{"t14_tt_update", {t, u}, {}}); break; }
                ops.push_back(Op{"t14_tt_add", {t, 0}, {}});
                ops.push_back(Op{"t14_tt_add", {t, 1}, {}});
                ops.push_back(Op{"t14_tt_remove", {t}, {}});
            }
        }
        return ops;
    }
    static std::string label_of(const Op& op)
    {
        if (op.f == "set") return "set_" + op.s[0];
        if (op.f == "set_slot") return "set_" + op.s[0];
        if (op.f == "t14_pl_update") return std::string("table.playlist.update.") + (op.i[1] == 0 ? "reorder" : op.i[1] == 1 ? "move" : op.i[1] == 2 ? "rename" : "reorder_rename");
        if (op.f == "t14_pl_add") return "table.playlist.add";
        if (op.f == "t14_pl_remove") return "table.playlist.remove";
        if (op.f == "t14_pe_add_back") return "table.playlist_entity.add_back";
        if (op.f == "t14_pe_remove") return "table.playlist_entity.remove";
        if (op.f == "t14_pe_clear") return "table.playlist_entity.clear";
        if (op.f == "t14_tt_update") return "table.track.update";
        if (op.f == "t14_tt_add") return "table.track.add";
        if (op.f == "t14_tt_remove") return "table.track.remove";
        return op.f;
    }
    static void visit(World& w, Model& m, const std::string& cid, Agg& a)
    {
        const std::string fam = w.v2 ? "v2" : "v1";
        const std::string d0 = w.dump();
        Image img = w.save();
        auto ops = mutating_ops(m, w);
        for (auto& op : ops)
        {
            const std::string label = label_of(op);
            const std::string ocid = cid + (cid.back() == '|' ? "" : ";") + op.str();
            auto viol = [&](const std::string& inv, const std::string& what) { a.violation(fam + "|" + label + "|" + inv, "[" + schema_name(w.schema) + "] " + op.str() + ": " + what, ocid); };
            // fault-free run
            long W = 0;
            std::string d_ok;
            Outcome r0;
            {
                seam::SqlArm arm;
                r0 = w.apply(op);
                W = seam::sql_ctl.execs;
            }
            const bool autocommit0 = sqlite3_get_autocommit(w.handle) != 0;
            if (!autocommit0) { try { w.exec("ROLLBACK"); } catch (...) {} }
            d_ok = w.dump();
            w.restore(img);
            if (getenv("VX_C14_TRACE")) { printf("  op %s W=%ld\n", op.str().c_str(), W); fflush(stdout); }
            if (!r0.ok)
            {
                // refused without any injected fault (a precondition test, or a statement that failed at a constraint by itself):
                // the same demands - reported by a std::exception, nothing changed, no transaction left open
                a.count("ops_rejected_without_fault");
                a.count("evaluations");
                bool fine = true;
                if (!r0.std_ex) { fine = false; viol("non_std_exception", "refused without a fault, threw " + r0.ex_type); }
                if (!autocommit0) { fine = false; viol("transaction_left_open", "refused without a fault (" + r0.ex_type + "): the connection is still inside a transaction"); }
                if (d_ok != d0) { fine = false; viol("partial_update", "refused without a fault (" + r0.ex_type + ": " + trunc(r0.what, 80) + ") but the database changed"); }
                if (fine) { a.count("validated"); a.count("natural_failures_checked"); if (W > 1) a.count("natural_failures_after_first_statement"); }
                continue;
            }
            a.count("operations");
            a.count("statements", W);
            for (long k = 0; k < W; ++k)
                for (int kind = 1; kind <= 2; ++kind)
                {
                    Outcome r;
                    long delivered = 0;
                    {
                        seam::SqlArm arm;
                        seam::sql_ctl.fault_at = k;
                        seam::sql_ctl.fault_kind = kind;
                        r = w.apply(op);
                        delivered = seam::sql_ctl.faults_delivered;
                    }
                    if (getenv("VX_C14_TRACE")) { printf("    k=%ld kind=%d delivered=%ld ok=%d autocommit=%d\n", k, kind, delivered, (int)r.ok, sqlite3_get_autocommit(w.handle)); fflush(stdout); }
                    a.count("evaluations");
                    const std::string where = "statement " + std::to_string(k + 1) + " of " + std::to_string(W) + (kind == 1 ? " failing with SQLITE_FULL" : " interrupted");
                    bool autocommit = sqlite3_get_autocommit(w.handle) != 0;
                    if (delivered == 0)
                    {
                        a.count(kind == 1 ? "fault_not_delivered_F1" : "fault_not_injectable_F2");
                    }
                    else
                    {
                        a.count(kind == 1 ? "faults_F1" : "faults_F2");
                        if (r.ok) viol("failure_not_reported", where + ": the call returned normally");
                        else if (!r.std_ex) viol("non_std_exception", where + ": threw " + r.ex_type);
                        if (!autocommit) viol("transaction_left_open", where + ": the connection is still inside a transaction after the call");
                    }
                    if (!autocommit)
                    {
                        try { w.exec("ROLLBACK"); } catch (...) {}
                    }
                    std::string d1 = w.dump();
                    bool ok = true;
                    if (delivered && !r.ok && d1 != d0)
                    {
                        ok = false;
                        // name the tables that differ
                        std::string diff;
                        auto la = split(d0, '\n'), lb = split(d1, '\n');
                        std::string table;
                        for (size_t i = 0, j = 0; i < la.size() && j < lb.size(); ++i, ++j)
                        {
                            if (la[i].rfind("## ", 0) == 0) table = la[i].substr(3, la[i].find(' ', 3) - 3);
                            if (la[i] != lb[j]) { diff = table; break; }
                        }
                        viol("partial_update", where + ": the call threw but the database changed (first difference in " + diff + ")");
                    }
                    if (delivered && r.ok && d1 != d_ok) { ok = false; viol("swallowed_failure_changed_result", where + ": the call returned normally but the result differs from the fault-free result"); }
                    // the library stays usable: the same call, repeated without a fault, reaches the fault-free successor
                    if (delivered && !r.ok && d1 == d0)
                    {
                        Outcome r2 = w.apply(op);
                        if (!r2.ok) { ok = false; viol("unusable_after_failure", where + ": repeating the call without a fault now fails: " + r2.ex_type + ": " + r2.what); }
                        else if (w.dump() != d_ok) { ok = false; viol("retry_differs", where + ": repeating the call without a fault does not reach the fault-free result"); }
                    }
                    if (ok && delivered) a.count("validated");
                    w.restore(img);
                }
        }
        a.seen("nontrivial", d0);
    }
};

int run(const Options& o)
{
    Evidence ev(o, "fault_enumeration");
    Reporter rep(o.property, build_variant());
    Agg total;
    const double t0 = now_s();
    if (!o.only.empty())
    {
        // "<schema>|<history>;<op>": the last operation is the one under fault injection
        auto r = run_isolated(300, [&](Emitter& em) {
            Agg a;
            auto bar = o.only.find('|');
            auto sch = schema_by_name(o.only.substr(0, bar));
            auto hist = parse_history(o.only.substr(bar + 1));
            Op last = hist.back();
            hist.pop_back();
            World w(*sch);
            Dom::Model m;
            ex::rebuild<Dom>(w, m, hist, a);
            // restrict the visit to the one operation by running it inline
            struct One : Dom {};
            std::string cid = o.only.substr(0, bar + 1) + history_str(hist);
            const std::string d0 = w.dump();
            Image img = w.save();
            seam::sql_ctl.log_sql = true;
            {
                seam::SqlArm arm;
                auto r0 = w.apply(last);
                printf("  fault-free: %s, %ld statement executions\n", r0.ok ? "ok" : r0.ex_type.c_str(), seam::sql_ctl.execs);
                for (size_t k = 0; k < seam::sql_ctl.log.size(); ++k) printf("    %zu: %s\n", k + 1, trunc(seam::sql_ctl.log[k], 140).c_str());
            }
            seam::sql_ctl.log_sql = false;
            w.restore(img);
            fflush(stdout);
            // run the full visit (all operations) and keep only this operation's violations
            Agg all;
            try { Dom::visit(w, m, cid, all); } catch (const std::exception& e) { printf("  visit threw: %s\n", e.what()); fflush(stdout); throw; }
            printf("  visit: %lld operations, %lld faulted runs, %lld F1 + %lld F2 delivered, %zu violations in this state\n", all.get("operations"), all.get("evaluations"), all.get("faults_F1"), all.get("faults_F2"), all.violations.size());
            for (auto& v : all.violations)
                if (v.case_id == o.only) a.violations.push_back(v);
            for (auto& v : a.violations) a.vcount[v.key]++;
            a.flush(em);
        });
        for (auto& l : r.lines) total.merge_line(l, rep);
        if (r.status != CaseResult::Ok) rep.add(Violation{"crash:" + r.crash_kind, "died: " + r.crash_kind + " in " + r.crash_frame, o.only, Json(r.crash_head)});
        for (auto& kv : rep.firsts()) printf("  %s: %s\n", kv.first.c_str(), kv.second.what.c_str());
        return rep.finish();
    }
    ex::Cfg cfg;
    cfg.schemas = all_schemas();
    if (const char* e = getenv("VX_SCHEMAS"))
    {
        cfg.schemas.clear();
        for (auto& n : split(e, ','))
            if (auto s = schema_by_name(n)) cfg.schemas.push_back(*s);
    }
    cfg.depth = o.quick() ? 0 : 1;
    if (o.quick())
        for (auto n : {"1.6.0", "1.18.0-os", "2.18.0", "2.21.2"}) cfg.depth_override[n] = 1;
    else
        for (auto n : {"1.6.0", "1.18.0-os", "2.18.0", "2.21.2"}) cfg.depth_override[n] = 2;
    if (const char* e = getenv("VX_DEPTH")) { cfg.depth = atoi(e); cfg.depth_override.clear(); }
    cfg.visit_states = true;
    cfg.check_restore = false;
    cfg.items_per_task = 1;
    cfg.deadline_abs = t0 + (o.deadline_s > 0 ? o.deadline_s : (o.quick() ? 280 : 3000));
    g_substep_timeout_s = 600;
    auto st = ex::explore<Dom>(o, cfg, rep, total);
    rep.set_counts(total.vcount);
    bool exhaustive = !st.deadline_hit;
    auto& c = ev.cov();
    c["evaluations"] = total.get("evaluations");
    c["distinct_nontrivial"] = total.get("faults_F1") + total.get("faults_F2");
    c["states"] = st.states;
    c["transitions"] = total.get("evaluations");
    c["traces_validated_against_impl"] = total.get("validated");
    c["rule"] =
        "Prior states: every distinct state of the composite exploration (three seeds; depth 0 on all 18 schemas and depth 1 on 1.6.0 / 1.18.0-os / 2.18.0 / 2.21.2 in the quick tier; depth 1 on all "
        "and depth 2 on those four in the thorough tier). In each prior state every applicable public mutating call is made: create_track (2 snapshots), update (2), remove_track, every one of the "
        "25 field setters with an ordinary value and with 'absent', set_hot_cue_at, set_loop_at, create_root_crate(_after), create_sub_crate(_after), set_name, set_parent, remove_crate, add_track "
        "(both overloads), crate.remove_track, clear_tracks; on 2.x also the public table API's mutating calls on the rows of the state: playlist_table update (re-order in front of every sibling / to the end, move under every other crate / to the root, rename, re-order + rename onto a sibling's title), add, remove; playlist_entity_table add_back (both duplicate modes), remove, clear; track_table update (plain, and onto another track's path), add, remove. A fault-free run counts the statement executions W of the call (BEGIN / COMMIT / SELECTs included); then for EVERY k in 1..W and both "
        "fault kinds (F1: the k-th execution returns SQLITE_FULL without running; F2: it is interrupted inside SQLite via the progress handler polled at every VM instruction) the state is restored, "
        "the fault armed and the call repeated. Oracle: the call throws a std::exception, no transaction is left open, the canonical dump equals the prior state, and the same call repeated "
        "without a fault succeeds and reaches exactly the fault-free successor. distinct_nontrivial = faults actually delivered.";
    c["exhaustive"] = exhaustive;
    Json b = Json::object();
    b["depth"] = cfg.depth;
    Json dbs = Json::object();
    for (auto& kv : st.depth_by_schema) dbs[kv.first] = kv.second;
    b["depth_completed_by_schema"] = dbs;
    b["deadline_hit"] = st.deadline_hit;
    c["bounds"] = b;
    c["counters"] = total.counters_json();
    Json s1 = Json::object();
    s1["prior_state"] = "2.18.0|create_track(2);create_root(|s);add_track(0,0)";
    s1["operation"] = "set(0,2|key)";
    s1["fault"] = "k = 2 of W, F1 (SQLITE_FULL)";
    ev.sample(s1);
    for (auto& h : st.sample_histories) ev.sample(Json(h));
    ev.assumption("a single fault per call; I/O-level failures inside a statement are SQLite's own atomicity");
    ev.assumption("F2 is not injectable on statements that finish before the progress handler is first polled; those (op, k) pairs are decided by F1 alone (counters.fault_not_injectable_F2)");
    for (auto& h : total.harness_errors) fprintf(stderr, "harness error: %s\n", h.c_str());
    int bad = rep.finish();
    if (!total.harness_errors.empty()) bad = -1;
    ev.write(bad < 0 ? 0 : bad, rep.known_hits());
    printf("C14 %s: prior_states=%lld operations=%lld faults=%lld validated=%lld exhaustive=%d wall=%.1fs\n", o.tier.c_str(), total.get("states_visited"), total.get("operations"),
           total.get("faults_F1") + total.get("faults_F2"), total.get("validated"), (int)exhaustive, now_s() - t0);
    return bad;
}
Registrar reg({"C14", "opt", "opt", run});
}  // namespace
