// C02 — blobs written by the library agree with an independent implementation of the Engine layout (refcodec),
// in both directions. Shape (I): the C03 value set for each of the eleven codecs.
#include <zlib.h>

#include "c02_stored.hpp"
#include "codec_run.hpp"

namespace
{
using namespace vx;
using namespace cod;

// strict unframing of a library-written blob: header = payload size, stream ends exactly at the end of the blob
bool unframe_strict(const Bytes& blob, Bytes& payload, std::string& why)
{
    payload.clear();
    if (blob.size() < 4) { why = "blob shorter than the 4-byte length prefix"; return false; }
    uint32_t n = ((uint32_t)(unsigned char)blob[0] << 24) | ((uint32_t)(unsigned char)blob[1] << 16) | ((uint32_t)(unsigned char)blob[2] << 8) | (uint32_t)(unsigned char)blob[3];
    if (n > (1u << 28)) { why = "absurd length prefix"; return false; }
    payload.resize(n ? n : 1);
    uLongf got = payload.size();
    uLong consumed = (uLong)(blob.size() - 4);
    int rc = uncompress2((Bytef*)&payload[0], &got, (const Bytef*)blob.data() + 4, &consumed);
    if (rc != Z_OK) { why = "zlib stream does not inflate (rc " + std::to_string(rc) + ")"; return false; }
    if (got != n) { why = "length prefix " + std::to_string(n) + " != inflated size " + std::to_string(got); return false; }
    if (consumed != blob.size() - 4) { why = "bytes after the end of the zlib stream"; return false; }
    payload.resize(n);
    return true;
}

template <class T>
void check_value(Agg& a, const typename T::Lib& orig, const std::string& cid)
{
    const std::string nm = T::name;
    a.count("evaluations");
    if (!T::must_accept(orig))
    {
        a.count("outcome.outside_encodable_domain_skipped");
        return;
    }
    auto want = T::to_ref(orig);
    Bytes want_bytes = ref::encode(want);
    a.seen("values", nm + want_bytes);
    // ---- direction A: library encoder -> independent decoder
    ByteVec blob;
    bool encoded = true;
    try
    {
        blob = T::enc(orig);
    }
    catch (const std::exception&)
    {
        encoded = false;  // refusal of an encodable value is C03's verdict, not C02's
        a.count("outcome.library_refused");
    }
    if (encoded)
    {
        a.count("transitions");
        Bytes payload;
        std::string why;
        bool ok = true;
        if (T::framed)
        {
            if (!unframe_strict(to_s(blob), payload, why))
            {
                a.violation(nm + ".frame", nm + " wrote a blob that is not '4-byte BE length + zlib stream': " + why, cid);
                ok = false;
            }
        }
        else
            payload = to_s(blob);
        if (ok)
        {
            typename T::Ref got;
            if (!ref::decode(payload, got, &why))
                a.violation(nm + ".written_blob_unreadable", nm + " wrote a payload the independent decoder cannot parse: " + why, cid);
            else if (!ref::same(got, want))
            {
                Json d = Json::object();
                d["expected_payload"] = hex(want_bytes.substr(0, 160));
                d["written_payload"] = hex(payload.substr(0, 160));
                a.violation(nm + ".written_layout_differs", nm + " wrote a payload whose content differs from the Engine layout of the value", cid, d);
            }
            else
            {
                a.count("outcome.written_agrees");
                a.count("validated");
            }
        }
    }
    // ---- direction B: independent encoder -> library decoder (all compression levels over the run)
    static const int levels[] = {-1, 0, 1, 9};
    int level = levels[fnv1a(cid.data(), cid.size()) % 4];
    std::vector<std::pair<Bytes, const char*>> variants;
    variants.push_back({T::framed ? ref::frame(want_bytes, level) : want_bytes, "plain"});
    if constexpr (std::is_same_v<T, V1Beat>) variants.push_back({ref::frame(want_bytes + Bytes(9, '\0'), level), "with the 9 trailing zero bytes Engine writes"});
    auto expect_back = T::to_ref(T::norm(orig));
    for (auto& var : variants)
    {
        a.count("transitions");
        try
        {
            auto back = guarded_dec<T>(to_v(var.first));
            if (!ref::same(T::to_ref(back), expect_back))
            {
                Json d = Json::object();
                d["payload"] = hex(want_bytes.substr(0, 160));
                d["decoded_as"] = hex(ref::encode(T::to_ref(back)).substr(0, 160));
                a.violation(nm + ".foreign_blob_misread", nm + " decodes an independently encoded blob (" + var.second + ") to different content", cid, d);
            }
            else
            {
                a.count("outcome.foreign_read_agrees");
                a.count("validated");
            }
        }
        catch (const seam::HorizonExceeded& h)
        {
            a.violation(nm + ".decoder_does_not_terminate", nm + " does not terminate on an independently encoded blob: inflate() called " + std::to_string(h.calls) + " times", cid);
        }
        catch (const std::exception& e)
        {
            a.violation(nm + ".foreign_blob_rejected", nm + " rejects an independently encoded blob (" + var.second + ", zlib level " + std::to_string(level) + "): " + e.what(), cid);
        }
    }
}

int run(const Options& o)
{
    Evidence ev(o, "model_checking");
    Reporter rep(o.property, build_variant());
    Agg total;
    auto per_value = [](auto tag, Agg& a, const auto& v, const std::string& cid) { check_value<typename decltype(tag)::type>(a, v, cid); };
    if (!o.only.empty())
    {
        if (o.only.rfind("stored:", 0) == 0)
        {
            // "stored:<schema>[:variant[:path]]" - the stored-blob half is cheap: the whole schema is re-run
            auto parts = split(o.only, ':');
            auto sch = parts.size() > 1 ? wm::schema_by_name(parts[1]) : std::nullopt;
            if (!sch) { fprintf(stderr, "bad case id\n"); return -1; }
            auto r = run_isolated(300, [&](Emitter& em) {
                Agg a;
                wm::World w(*sch);
                c02s::run_stored(w, a);
                a.flush(em);
            });
            for (auto& l : r.lines) total.merge_line(l, rep);
            if (r.status != CaseResult::Ok) rep.add(Violation{"stored.crash:" + r.crash_kind, "writing / reading stored blobs died (" + r.crash_kind + ") in " + r.crash_frame, o.only, Json(r.crash_head)});
        }
        else if (!run_single_value(o.only, rep, total, per_value)) { fprintf(stderr, "bad case id\n"); return -1; }
        for (auto& kv : rep.firsts()) printf("  %s: %s %s\n", kv.first.c_str(), kv.second.what.c_str(), kv.second.detail.dump(0).c_str());
        return rep.finish();
    }
    const double t0 = now_s();
    std::vector<std::pair<int, bool>> phases = o.quick() ? std::vector<std::pair<int, bool>>{{2, false}} : std::vector<std::pair<int, bool>>{{2, true}, {3, false}};
    size_t tasks = 0, tasks_done = 0;
    bool deadline_hit = false;
    Json completed = Json::array();
    for (auto& ph : phases)
    {
        CodecRun cfg;
        cfg.k = ph.first;
        cfg.wide = ph.second;
        cfg.stripes = cfg.k >= 3 ? 32 : 8;
        cfg.timeout_s = 1800;
        cfg.deadline_abs = t0 + (o.deadline_s > 0 ? o.deadline_s : (o.quick() ? 240 : 2400));
        run_codec_values(o, cfg, rep, total, per_value);
        tasks += cfg.tasks;
        tasks_done += cfg.tasks_done;
        deadline_hit = deadline_hit || cfg.deadline_hit;
        Json p = Json::object();
        p["max_field_deviations"] = cfg.k;
        p["wide_size_alphabets"] = cfg.wide;
        p["tasks"] = (long long)cfg.tasks;
        p["tasks_completed"] = (long long)cfg.tasks_done;
        completed.push(p);
    }
    // stored-blob half: blobs written through create_track, update and the single-field setters on every schema, read back by raw SQL and decoded with refcodec
    {
        auto schemas = wm::all_schemas();
        auto res = run_pool(schemas.size(), o.jobs, 300, [&](size_t si, Emitter& em) {
            Agg a;
            wm::World w(schemas[si]);
            c02s::run_stored(w, a);
            a.flush(em);
        });
        for (size_t i = 0; i < res.size(); ++i)
        {
            for (auto& l : res[i].lines) total.merge_line(l, rep);
            if (res[i].status != CaseResult::Ok) rep.add(Violation{"stored.crash:" + res[i].crash_kind, "writing / reading stored blobs died (" + res[i].crash_kind + ") in " + res[i].crash_frame, "stored:" + wm::schema_name(schemas[i]), Json(res[i].crash_head)});
            else ++tasks_done;
            ++tasks;
        }
    }
    rep.set_counts(total.vcount);
    const bool exhaustive = !deadline_hit && tasks_done == tasks;
    auto& c = ev.cov();
    c["evaluations"] = total.get("evaluations");
    c["distinct_nontrivial"] = total.ndistinct("values");
    c["states"] = total.ndistinct("values");
    c["transitions"] = total.get("transitions");
    c["traces_validated_against_impl"] = total.get("validated");
    c["rule"] =
        "The C03 value set (base value + at most k field deviations per codec; quick k=2 small size alphabets, thorough k=2 wide + k=3 small) restricted to the encodable domain. "
        "For every value v: refcodec.decode(unframe(lib.encode(v))) must equal the Engine layout of v field for field (and the frame must be exactly 4-byte BE length + one complete "
        "zlib stream), and lib.decode(frame(refcodec.encode(v))) must equal v, with the foreign blob compressed at zlib level -1/0/1/9 (chosen by case hash) and, for 1.x beat data, "
        "also with Engine's nine trailing zero bytes. Stored half: five snapshot variants (all slots, edge slots with 255-byte labels and four different colour channel values, short lists, three-marker grid) are "
        "written on all 18 schemas along four paths (create_track; update over a different stored snapshot; the eight blob-backed single-field setters over a different stored snapshot, in forward and in reverse order); the raw quickCues / loops / beatData / trackData / overviewWaveFormData (and 1.x highResolutionWaveFormData) columns are read by raw SQL and decoded with refcodec and must hold exactly the content the Engine layout "
        "prescribes for the snapshot (8 slots, empty slot = offset -1, channel order a,r,g,b, beats-to-next-marker, main cue twice, loudness three times on 2.x; overview waveform: recommended number of points, samples per point of the recommended extent, the points given, maximum point = maximum of the stored points; 1.x high-resolution waveform: the entries given as values then opacities, samples per point, maximum). Distinct = distinct (codec, payload) pairs; validated = comparisons that were carried out and agreed.";
    c["exhaustive"] = exhaustive;
    Json b = Json::object();
    b["phases"] = completed;
    b["tasks_total"] = (long long)tasks;
    b["tasks_completed"] = (long long)tasks_done;
    b["deadline_hit"] = deadline_hit;
    c["bounds"] = b;
    c["counters"] = total.counters_json();
    c["distinct_outcomes"] = total.counters_json("outcome.");
    for (int i = 0; i < NUM_CODECS; ++i)
        with_codec(i, [&](auto tag) {
            using T = typename decltype(tag)::type;
            Chooser ch;
            std::vector<int> zero(field_sizes<T>(false).size(), 0);
            ch.choice = &zero;
            auto v = T::make(ch);
            Json s = Json::object();
            s["codec"] = T::name;
            s["case"] = make_case_id(T::name, zero, false);
            s["engine_layout_payload_hex"] = hex(ref::encode(T::to_ref(v)).substr(0, 96));
            ev.sample(s);
        });
    ev.assumption("trusted base: src/refcodec (about 400 lines written from the documented layout, sharing no code with the library, using zlib's one-shot compress2/uncompress2)");
    ev.assumption("agreement with real Engine hardware is only as good as the documented layout: testdata contains no real blob");
    ev.assumption("values the library's encoder refuses are C03's business and are skipped here; 1.x decoders are only fed foreign blobs of values inside their encodable domain");
    for (auto& h : total.harness_errors) fprintf(stderr, "harness error: %s\n", h.c_str());
    int bad = rep.finish();
    if (!total.harness_errors.empty()) bad = -1;
    ev.write(bad < 0 ? 0 : bad, rep.known_hits());
    printf("C02 %s: values=%lld distinct=%lld validated=%lld tasks=%zu/%zu exhaustive=%d wall=%.1fs\n", o.tier.c_str(), total.get("evaluations"), total.ndistinct("values"),
           total.get("validated"), tasks_done, tasks, (int)exhaustive, now_s() - t0);
    return bad;
}
Registrar reg({"C02", "san", "opt", run});
}  // namespace
