// C08 — crate contents are exactly the tracks added and not removed. Shape (S): BFS over create/remove track,
// create/remove crate, add_track (both overloads), remove_track, clear_tracks with <= 3 tracks and <= 3 crates,
// from seeds in which track ids, crate ids and membership-row ids have already diverged.
#include <algorithm>
#include <set>

#include "model/explore.hpp"

namespace
{
using namespace vx;
using namespace wm;

constexpr int MAX_TRACKS = 3, MAX_CRATES = 3;

struct Mem
{
    struct T { bool live; int64_t id; };
    struct C { bool live; int64_t id; int parent; };
    std::vector<T> t;
    std::vector<C> c;
    std::set<std::pair<int, int>> pairs;  // (crate index, track index)
    std::string dump_hash;
    bool below(int x, int anc) const
    {
        for (int p = c[x].parent, g = 0; p >= 0 && g < 16; p = c[p].parent, ++g)
            if (p == anc) return true;
        return false;
    }
};

std::string ids_str(std::vector<int64_t> v)
{
    std::sort(v.begin(), v.end());
    std::string s = "{";
    for (size_t k = 0; k < v.size(); ++k) s += (k ? "," : "") + std::to_string(v[k]);
    return s + "}";
}

struct Dom
{
    using Model = Mem;
    static void init(Model& m, World& w) { m.dump_hash = hash128(w.dump()); }
    static void visit(World&, Model&, const std::string&, Agg&) {}
    static std::string key_extra(const Model&) { return ""; }
    static std::vector<std::string> seeds(eng::engine_schema)
    {
        return {"",
                // a track, a crate and a membership row created and removed again: the three id spaces are now offset from each other
                "create_track(0);create_root(|s);add_track(0,0);create_track(0);remove_track(0);remove_crate(0)",
                // two tracks, first removed; crate created afterwards: track id 2 sits in crate id 1 through membership row 1
                "create_track(0);create_track(0);remove_track(0);create_root(|p);add_track(0,1)",
                // nested crates sharing a track (enters one level late: it gets depth - 1 further operations)
                "@1:create_track(0);create_track(0);create_root(|a);create_sub(0|b);add_track(0,0);add_track(1,0);add_track(1,1)",
                // id order against tree order: the populated sub-crate is OLDER than its parent (created as a root, then moved), so that
                // after removing the parent the sub-crate's id is the first one a schema without AUTOINCREMENT hands out again
                "@1:create_track(0);create_root(|b);create_root(|a);set_parent(0,1);add_track(0,0)"};
    }
    static std::vector<Op> alphabet(const Model& m, const World&, int)
    {
        std::vector<Op> ops;
        std::vector<int> lt, lc;
        for (int k = 0; k < (int)m.t.size(); ++k)
            if (m.t[k].live) lt.push_back(k);
        for (int k = 0; k < (int)m.c.size(); ++k)
            if (m.c[k].live) lc.push_back(k);
        int made_t = 0, made_c = 0;
        for (auto& x : m.t) made_t += x.live ? 1 : 0;
        for (auto& x : m.c) made_c += x.live ? 1 : 0;
        if (made_t < MAX_TRACKS && m.t.size() < 5) ops.push_back(Op{"create_track", {0}, {}});
        if (made_c < MAX_CRATES && m.c.size() < 5)
        {
            ops.push_back(Op{"create_root", {}, {"c" + std::to_string(m.c.size())}});
            for (int p : lc) ops.push_back(Op{"create_sub", {p}, {"c" + std::to_string(m.c.size())}});
        }
        for (int t : lt) ops.push_back(Op{"remove_track", {t}, {}});
        for (int c : lc) ops.push_back(Op{"remove_crate", {c}, {}});
        for (int c : lc)
        {
            for (int t : lt)
            {
                ops.push_back(Op{"add_track", {c, t}, {}});
                ops.push_back(Op{"add_track_id", {c, t}, {}});
                ops.push_back(Op{"add_tracks", {c, t}, {}});
                ops.push_back(Op{"remove_track_from", {c, t}, {}});
            }
            ops.push_back(Op{"clear_tracks", {c}, {}});
        }
        return ops;
    }
    static bool step(World& w, Model& m, const Op& op, const Outcome& r, Agg& a, const std::string& cid, bool checking)
    {
        const std::string fam = w.v2 ? "v2" : "v1";
        bool healthy = true;
        auto viol = [&](const std::string& inv, const std::string& what) {
            healthy = false;
            if (checking) a.violation(fam + "|" + op.f + "|" + inv, "[" + schema_name(w.schema) + "] after " + op.str() + ": " + what, cid);
        };
        std::string now_hash = hash128(w.dump());
        m.dump_hash = now_hash;
        if (checking) a.count("op." + op.f + (r.ok ? ".ok" : ".rejected"));
        if (!r.ok) viol("rejected_valid_operation", "operation on live entities was rejected: " + r.ex_type + ": " + r.what);
        if (r.ok)
        {
            if (op.f == "create_track") m.t.push_back({true, w.tracks.back().id()});
            else if (op.f == "create_root") m.c.push_back({true, w.crates.back().id(), -1});
            else if (op.f == "create_sub") m.c.push_back({true, w.crates.back().id(), (int)op.i[0]});
            else if (op.f == "set_parent") m.c[op.i[0]].parent = (int)op.i[1];  // seeds only
            else if (op.f == "remove_track")
            {
                int t = (int)op.i[0];
                m.t[t].live = false;
                for (auto it = m.pairs.begin(); it != m.pairs.end();) it = it->second == t ? m.pairs.erase(it) : std::next(it);
            }
            else if (op.f == "remove_crate")
            {
                int c = (int)op.i[0];
                std::set<int> gone{c};
                for (int k = 0; k < (int)m.c.size(); ++k)
                    if (m.c[k].live && m.below(k, c))
                    {
                        bool valid = true;
                        try { valid = w.crates[k].is_valid(); } catch (...) {}
                        if (!valid) gone.insert(k);
                        else m.c[k].parent = -1;  // survivor (C07 judges where it ends up)
                    }
                for (int k : gone) m.c[k].live = false;
                for (auto it = m.pairs.begin(); it != m.pairs.end();) it = gone.count(it->first) ? m.pairs.erase(it) : std::next(it);
            }
            else if (op.f == "add_track" || op.f == "add_track_id" || op.f == "add_tracks") m.pairs.insert({(int)op.i[0], (int)op.i[1]});
            else if (op.f == "remove_track_from") m.pairs.erase({(int)op.i[0], (int)op.i[1]});
            else if (op.f == "clear_tracks")
            {
                int c = (int)op.i[0];
                for (auto it = m.pairs.begin(); it != m.pairs.end();) it = it->first == c ? m.pairs.erase(it) : std::next(it);
            }
        }
        if (!checking) return healthy;
        a.count("states_checked");
        try
        {
            std::vector<int64_t> live_t;
            for (auto& x : m.t)
                if (x.live) live_t.push_back(x.id);
            {
                auto s = live_t;
                std::sort(s.begin(), s.end());
                if (std::adjacent_find(s.begin(), s.end()) != s.end()) viol("live_track_ids_collide", "two live tracks share an id " + ids_str(live_t));
            }
            std::vector<int64_t> got_t;
            for (auto& t : w.db.tracks()) got_t.push_back(t.id());
            if (ids_str(got_t) != ids_str(live_t) || got_t.size() != live_t.size()) viol("database_tracks", "database::tracks() = " + ids_str(got_t) + " (" + std::to_string(got_t.size()) + "), expected " + ids_str(live_t));
            for (int c = 0; c < (int)m.c.size(); ++c)
            {
                if (!m.c[c].live) continue;
                std::vector<int64_t> want;
                for (auto& p : m.pairs)
                    if (p.first == c) want.push_back(m.t[p.second].id);
                std::vector<int64_t> got;
                bool all_valid = true;
                for (auto& t : w.crates[c].tracks())
                {
                    got.push_back(t.id());
                    if (!t.is_valid()) all_valid = false;
                }
                if (ids_str(got) != ids_str(want) || got.size() != want.size())
                    viol("crate_tracks", "crate " + std::to_string(m.c[c].id) + " tracks() = " + ids_str(got) + " (" + std::to_string(got.size()) + " entries), expected " + ids_str(want));
                else if (!all_valid)
                    viol("crate_lists_removed_track", "crate " + std::to_string(m.c[c].id) + " lists a track whose handle is not valid");
            }
            for (int t = 0; t < (int)m.t.size(); ++t)
            {
                if (!m.t[t].live) { if (w.tracks[t].is_valid() && std::find(live_t.begin(), live_t.end(), m.t[t].id) == live_t.end()) viol("removed_track_still_valid", "handle of removed track " + std::to_string(m.t[t].id) + " is valid"); continue; }
                if (!w.tracks[t].is_valid()) { viol("live_track_invalid", "live track " + std::to_string(m.t[t].id) + " is_valid() == false"); continue; }
                std::vector<int64_t> want;
                for (auto& p : m.pairs)
                    if (p.second == t) want.push_back(m.c[p.first].id);
                try
                {
                    std::vector<int64_t> got;
                    for (auto& c : w.tracks[t].containing_crates()) got.push_back(c.id());
                    if (ids_str(got) != ids_str(want) || got.size() != want.size())
                        viol("containing_crates", "track " + std::to_string(m.t[t].id) + " containing_crates() = " + ids_str(got) + " (" + std::to_string(got.size()) + "), expected " + ids_str(want));
                    a.count("containing_crates.supported");
                }
                catch (const std::exception&)
                {
                    if (!w.v2) viol("containing_crates_throws", "containing_crates() threw on a schema 1.x library");
                    a.count("containing_crates.unsupported");
                }
            }
        }
        catch (const std::exception& e)
        {
            viol("query_throws", std::string("a membership query threw: ") + e.what());
        }
        if (healthy) a.count("validated");
        // non-trivial: at least one membership pair and diverged id spaces (some live track id differs from its crate's id or from its creation index + 1)
        bool diverged = false;
        for (auto& p : m.pairs)
            if (m.t[p.second].id != m.c[p.first].id || m.t[p.second].id != p.second + 1) diverged = true;
        if (!m.pairs.empty() && diverged) a.seen("nontrivial", now_hash);
        return healthy;
    }
};

int run(const Options& o)
{
    Evidence ev(o, "model_checking");
    Reporter rep(o.property, build_variant());
    Agg total;
    const double t0 = now_s();
    if (!o.only.empty())
    {
        ex::replay<Dom>(o.only, rep, total);
        for (auto& kv : rep.firsts()) printf("  %s: %s\n", kv.first.c_str(), kv.second.what.c_str());
        return rep.finish();
    }
    ex::Cfg cfg;
    cfg.schemas = all_schemas();
    if (const char* e = getenv("VX_SCHEMAS"))
    {
        cfg.schemas.clear();
        for (auto& n : split(e, ','))
            if (auto s = schema_by_name(n)) cfg.schemas.push_back(*s);
    }
    cfg.depth = o.quick() ? 3 : 6;
    if (const char* e = getenv("VX_DEPTH")) cfg.depth = atoi(e);
    cfg.deadline_abs = t0 + (o.deadline_s > 0 ? o.deadline_s : (o.quick() ? 280 : 3000));
    auto st = ex::explore<Dom>(o, cfg, rep, total);
    rep.set_counts(total.vcount);
    bool exhaustive = !st.deadline_hit;
    for (auto& kv : st.depth_by_schema)
        if (kv.second < cfg.depth) exhaustive = false;
    auto& c = ev.cov();
    c["states"] = st.states;
    c["transitions"] = st.transitions;
    c["traces_validated_against_impl"] = total.get("validated");
    c["evaluations"] = st.transitions;
    c["distinct_nontrivial"] = total.ndistinct("nontrivial");
    c["rule"] =
        "Explicit-state BFS on the real library for each schema version. Alphabet in every state: create_track, remove_track(t), create_root_crate, create_sub_crate(p), remove_crate(c), "
        "c.add_track(track), c.add_track(id), c.remove_track(t), c.clear_tracks() for every live crate c and live track t (so re-adding a member and removing a non-member are always included); "
        "at most 3 live tracks and 3 live crates; five seeds (one with nested crates sharing a track and one whose populated sub-crate is older than its parent, both entering one level late), two of which have created and removed a track, a crate and a membership row first so that the three id spaces differ. "
        "After every transition: crate.tracks() of every live crate equals the model's member set as a multiset with only valid handles, track.containing_crates() is the exact converse on 1.x "
        "(2.x: 'not yet implemented' is accepted), database::tracks() equals the live set, removed handles stay invalid. Non-trivial = distinct states with at least one membership pair whose "
        "track id differs from its crate id or from its creation rank.";
    c["exhaustive"] = exhaustive;
    Json b = Json::object();
    b["depth"] = cfg.depth;
    Json dbs = Json::object();
    for (auto& kv : st.depth_by_schema) dbs[kv.first] = kv.second;
    b["depth_completed_by_schema"] = dbs;
    b["deadline_hit"] = st.deadline_hit;
    b["states_not_expanded_because_violating"] = st.unhealthy;
    c["bounds"] = b;
    c["counters"] = total.counters_json();
    for (auto& h : st.sample_histories) ev.sample(Json(h));
    if (st.sample_histories.empty()) ev.sample(Json("(no history of length >= 2 was reached)"));
    for (auto& h : total.harness_errors) fprintf(stderr, "harness error: %s\n", h.c_str());
    int bad = rep.finish();
    if (!total.harness_errors.empty()) bad = -1;
    ev.write(bad < 0 ? 0 : bad, rep.known_hits());
    printf("C08 %s: states=%lld transitions=%lld validated=%lld nontrivial=%lld unhealthy_states=%lld exhaustive=%d wall=%.1fs\n", o.tier.c_str(), st.states, st.transitions, total.get("validated"),
           total.ndistinct("nontrivial"), st.unhealthy, (int)exhaustive, now_s() - t0);
    return bad;
}
Registrar reg({"C08", "san", "opt", run});
}  // namespace
