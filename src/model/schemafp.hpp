// Independent structural fingerprint of an SQLite schema (used by C12 and C17): for tables and indices the rows of
// PRAGMA table_xinfo / index_list / index_xinfo / foreign_key_list plus the AUTOINCREMENT / WITHOUT ROWID properties of the DDL; for views and triggers the sqlite_master text,
// lower-cased, with whitespace collapsed and identifier quoting ([x], "x", `x`) removed.
#pragma once
#include <sqlite3.h>

#include <map>
#include <stdexcept>
#include <string>
#include <vector>

#include "common/seams.hpp"

namespace sfp
{
using Rows = std::vector<std::vector<std::string>>;
inline Rows q(sqlite3* db, const std::string& sql)
{
    Rows rows;
    sqlite3_stmt* st = nullptr;
    bool was = vx::seam::sql_ctl.armed;
    vx::seam::sql_ctl.armed = false;
    if (sqlite3_prepare_v2(db, sql.c_str(), -1, &st, nullptr) != SQLITE_OK)
    {
        std::string m = sqlite3_errmsg(db);
        vx::seam::sql_ctl.armed = was;
        throw std::runtime_error("fingerprint query failed: " + sql + ": " + m);
    }
    while (sqlite3_step(st) == SQLITE_ROW)
    {
        std::vector<std::string> r;
        for (int c = 0; c < sqlite3_column_count(st); ++c)
        {
            const char* t = (const char*)sqlite3_column_text(st, c);
            r.push_back(sqlite3_column_type(st, c) == SQLITE_NULL ? "<null>" : (t ? t : ""));
        }
        rows.push_back(r);
    }
    sqlite3_finalize(st);
    vx::seam::sql_ctl.armed = was;
    return rows;
}
inline std::string norm_sql(const std::string& sql)
{
    std::string s;
    bool in_str = false;
    for (char c : sql)
    {
        if (c == '\'')
        {
            // a string literal is a token of its own: "=''BEGIN" and "= '' BEGIN" are the same text
            if (!in_str) s += " '";
            else s += "' ";
            in_str = !in_str;
            continue;
        }
        if (!in_str && (c == '[' || c == ']' || c == '"' || c == '`')) continue;
        s += in_str ? c : (char)tolower((unsigned char)c);
    }
    // collapse whitespace, drop it around punctuation
    std::string out;
    for (size_t i = 0; i < s.size(); ++i)
    {
        char c = s[i];
        if (isspace((unsigned char)c))
        {
            if (!out.empty() && out.back() != ' ') out += ' ';
        }
        else
            out += c;
    }
    std::string r;
    for (size_t i = 0; i < out.size(); ++i)
    {
        if (out[i] == ' ' && (i + 1 == out.size() || strchr("(),;=<>!|+-*/", out[i + 1]) || (i > 0 && strchr("(),;=<>!|+-*/", out[i - 1])))) continue;
        r += out[i];
    }
    while (!r.empty() && (r.back() == ';' || r.back() == ' ')) r.pop_back();
    return r;
}
// schema-qualifier ("music." / "perfdata.") is removed from the CREATE text so that created and hydrated schemas compare
inline std::string strip_qualifier(std::string s, const std::string& dbn)
{
    std::string needle = dbn + ".";
    size_t p;
    while ((p = s.find(needle)) != std::string::npos) s.erase(p, needle.size());
    return s;
}
// object name -> fingerprint text
inline std::map<std::string, std::string> fingerprint(sqlite3* db, const std::string& dbn)
{
    std::map<std::string, std::string> fp;
    for (auto& o : q(db, "SELECT type, name, tbl_name, sql FROM " + dbn + ".sqlite_master ORDER BY type, name"))
    {
        const std::string &type = o[0], &name = o[1];
        if (name.rfind("sqlite_", 0) == 0 && type == "table") continue;  // sqlite_sequence, sqlite_stat*
        std::string f;
        if (type == "table")
        {
            for (auto& c : q(db, "PRAGMA " + dbn + ".table_xinfo('" + name + "')")) f += "col " + c[1] + "|" + norm_sql(c[2]) + "|notnull=" + c[3] + "|default=" + norm_sql(c[4]) + "|pk=" + c[5] + "|hidden=" + c[6] + "\n";
            for (auto& k : q(db, "PRAGMA " + dbn + ".foreign_key_list('" + name + "')")) f += "fk " + k[2] + "(" + k[4] + ")<-" + k[3] + " on_update=" + k[5] + " on_delete=" + k[6] + "\n";
            // properties of the table the pragmas do not report: AUTOINCREMENT (ids are never handed out again) and WITHOUT ROWID
            {
                const std::string ddl = " " + norm_sql(o[3]) + " ";
                f += std::string("autoincrement=") + (ddl.find(" autoincrement") != std::string::npos ? "1" : "0") + " without_rowid=" + (ddl.find("without rowid") != std::string::npos ? "1" : "0") + "\n";
            }
            std::vector<std::string> idx;
            for (auto& i : q(db, "PRAGMA " + dbn + ".index_list('" + name + "')"))
            {
                std::string d = "index " + std::string(i[1].rfind("sqlite_autoindex", 0) == 0 ? "(auto)" : i[1]) + " unique=" + i[2] + " origin=" + i[3] + " partial=" + i[4] + " cols=";
                for (auto& c : q(db, "PRAGMA " + dbn + ".index_xinfo('" + i[1] + "')"))
                    if (c[5] == "1") d += c[2] + (c[3] == "1" ? " desc" : "") + ",";
                idx.push_back(d);
            }
            std::sort(idx.begin(), idx.end());
            for (auto& d : idx) f += d + "\n";
        }
        else if (type == "index")
        {
            if (name.rfind("sqlite_autoindex", 0) == 0) continue;
            f = "index on " + o[2] + ": " + strip_qualifier(norm_sql(o[3]), dbn);
        }
        else
            f = strip_qualifier(norm_sql(o[3]), dbn);
        fp[type + " " + name] = f;
    }
    return fp;
}
inline std::string diff(const std::map<std::string, std::string>& a, const std::map<std::string, std::string>& b, const char* an, const char* bn)
{
    std::string d;
    for (auto& kv : a)
    {
        auto it = b.find(kv.first);
        if (it == b.end()) d += std::string("[only in ") + an + "] " + kv.first + "; ";
        else if (it->second != kv.second)
        {
            // first differing line
            auto la = vx::split(kv.second, '\n'), lb = vx::split(it->second, '\n');
            std::string where;
            for (size_t i = 0; i < std::max(la.size(), lb.size()) && where.empty(); ++i)
            {
                std::string x = i < la.size() ? la[i] : "(none)", y = i < lb.size() ? lb[i] : "(none)";
                if (x != y) where = std::string(an) + ": " + vx::trunc(x, 160) + " | " + bn + ": " + vx::trunc(y, 160);
            }
            d += "[differs] " + kv.first + " {" + where + "}; ";
        }
    }
    for (auto& kv : b)
        if (!a.count(kv.first)) d += std::string("[only in ") + bn + "] " + kv.first + "; ";
    return d;
}
inline std::string flat(const std::map<std::string, std::string>& fp)
{
    std::string s;
    for (auto& kv : fp) s += kv.first + "\n" + kv.second + "\n";
    return s;
}
}  // namespace sfp
