#include "world.hpp"

#include <cxxabi.h>
#include <sys/stat.h>

#include <map>
#include <sstream>
#include <typeinfo>

namespace wm
{
using namespace vx;

const std::vector<eng::engine_schema>& all_schemas()
{
    static const std::vector<eng::engine_schema> v(eng::supported_schemas.begin(), eng::supported_schemas.end());
    return v;
}
bool is_v2(eng::engine_schema s) { return s >= eng::engine_schema::schema_2_18_0; }
std::string schema_name(eng::engine_schema s)
{
    if (s == eng::engine_schema::schema_1_18_0_desktop) return "1.18.0-desktop";
    if (s == eng::engine_schema::schema_1_18_0_os) return "1.18.0-os";
    return eng::to_string(s);
}
std::optional<eng::engine_schema> schema_by_name(const std::string& n)
{
    for (auto s : all_schemas())
        if (schema_name(s) == n) return s;
    if (n == "3.0.0") return eng::engine_schema::schema_3_0_0;
    return std::nullopt;
}

// ------------------------------------------------------------------------------------------------------ Op
static std::string esc(const std::string& s)
{
    std::string r;
    for (unsigned char c : s)
    {
        if (c == '%' || c == '|' || c == ',' || c == '(' || c == ')' || c == ';' || c == ' ' || c < 32 || c >= 127)
        {
            char b[8];
            snprintf(b, sizeof b, "%%%02x", c);
            r += b;
        }
        else
            r += (char)c;
    }
    return r;
}
static std::string unesc(const std::string& s)
{
    std::string r;
    for (size_t i = 0; i < s.size(); ++i)
    {
        if (s[i] == '%' && i + 2 < s.size() + 0 && i + 2 <= s.size() - 1 + 0)
        {
            r += (char)strtol(s.substr(i + 1, 2).c_str(), nullptr, 16);
            i += 2;
        }
        else
            r += s[i];
    }
    return r;
}
std::string Op::str() const
{
    std::string r = f + "(";
    for (size_t k = 0; k < i.size(); ++k) r += (k ? "," : "") + std::to_string(i[k]);
    for (auto& x : s) r += "|" + esc(x);
    return r + ")";
}
Op Op::parse(const std::string& text)
{
    Op op;
    auto p = text.find('(');
    op.f = text.substr(0, p);
    if (p == std::string::npos) return op;
    std::string body = text.substr(p + 1, text.rfind(')') - p - 1);
    auto parts = split(body, '|');
    if (!parts[0].empty())
        for (auto& x : split(parts[0], ',')) op.i.push_back(atoll(x.c_str()));
    for (size_t k = 1; k < parts.size(); ++k) op.s.push_back(unesc(parts[k]));
    return op;
}
std::string history_str(const std::vector<Op>& h)
{
    std::string r;
    for (size_t k = 0; k < h.size(); ++k) r += (k ? ";" : "") + h[k].str();
    return r;
}
std::vector<Op> parse_history(const std::string& text)
{
    std::vector<Op> h;
    if (text.empty()) return h;
    for (auto& x : split(text, ';'))
        if (!x.empty()) h.push_back(Op::parse(x));
    return h;
}

// ------------------------------------------------------------------------------------------------------ snapshots
dj::track_snapshot example_snapshot(int kind, int n)
{
    using namespace std::chrono;
    dj::track_snapshot s;
    std::string tag = std::to_string(n);
    if (kind == 0)
    {
        s.relative_path = "min" + tag + ".ext";
        return s;
    }
    s.album = "Album " + tag;
    s.artist = "Artist " + tag;
    s.bitrate = 320;
    s.bpm = 123;
    s.comment = "Comment " + tag;
    s.composer = "Composer";
    s.duration = milliseconds{210000};
    s.genre = "Genre";
    s.key = dj::musical_key::a_minor;
    s.last_played_at = system_clock::time_point{seconds{1509321800}};
    s.publisher = "Publisher";
    s.relative_path = "../music/" + tag + " - Some Track.mp3";
    s.title = "Title " + tag;
    s.track_number = 1 + n;
    s.year = 2017;
    if (kind == 1) return s;
    s.average_loudness = 0.555;
    s.bitrate = 1536;
    s.bpm = 120;
    s.duration = milliseconds{2000};
    s.file_bytes = 1048576;
    s.key = dj::musical_key::d_minor;
    s.last_played_at = system_clock::time_point{seconds{1616548524}};
    s.main_cue = 4410;
    s.rating = 60;
    s.relative_path = "../music/" + tag + " - Other Track.flac";
    s.sample_count = 88200;
    s.sample_rate = 44100;
    s.beatgrid = {{-4, -66150.0 + 22050.0 * 0}, {8, 198450.0}};
    s.beatgrid = {{0, 2205.0}, {4, 90405.0}};
    s.hot_cues.resize(8);
    s.loops.resize(8);
    s.hot_cues[1] = dj::hot_cue{"Example cue", 10268.5, eng::standard_pad_colors::pad_2};
    s.hot_cues[5] = dj::hot_cue{"Example other cue", 18537, eng::standard_pad_colors::pad_6};
    s.loops[7] = dj::loop{"Example loop", 10268.5, 18537, eng::standard_pad_colors::pad_8};
    if (kind == 3)
        for (int k = 0; k < 8; ++k)
        {
            s.hot_cues[k] = dj::hot_cue{"Cue " + std::to_string(k + 1), 1000.5 * (k + 1), eng::standard_pad_colors::pads[k]};
            s.loops[k] = dj::loop{"Loop " + std::to_string(k + 1), 500.25 * (k + 1), 500.25 * (k + 1) + 4000, eng::standard_pad_colors::pads[7 - k]};
        }
    return s;
}
// waveform of the size the library recommends for this schema
static void add_waveform(dj::track_snapshot& s, bool v2)
{
    if (!s.sample_count || !s.sample_rate) return;
    auto ext = v2 ? eng::calculate_overview_waveform_extents(*s.sample_count, *s.sample_rate) : eng::calculate_high_resolution_waveform_extents(*s.sample_count, *s.sample_rate);
    s.waveform.clear();
    for (unsigned long long i = 0; i < ext.size; ++i)
    {
        uint8_t a = (uint8_t)(i * 255 / ext.size), b = (uint8_t)(i * 127 / ext.size), c = (uint8_t)(i * 63 / ext.size);
        if (v2) s.waveform.push_back({{a}, {b}, {c}});
        else s.waveform.push_back({{a, a}, {b, b}, {c, c}});
    }
}

// ------------------------------------------------------------------------------------------------------ World
static std::map<std::string, World::OpFn>& op_registry()
{
    static std::map<std::string, World::OpFn> r;
    return r;
}
void World::register_op(const std::string& name, OpFn fn)
{
    // one registry for all checks: a second registration under the same name would silently replace another check's operation
    if (op_registry().count(name))
    {
        fprintf(stderr, "harness error: operation '%s' registered twice\n", name.c_str());
        abort();
    }
    op_registry()[name] = std::move(fn);
}

static std::string read_uuid(World& w)
{
    auto r = w.query(w.v2 ? "SELECT uuid FROM Information" : "SELECT uuid FROM music.Information");
    return r.empty() ? "" : r[0][0];
}
World::World(eng::engine_schema sch) : schema(sch), v2(is_v2(sch)), db(std::shared_ptr<dj::database_impl>())
{
    size_t before = seam::opened_handles().size();
    if (v2)
    {
        // identical to create_temporary_database (engine.cpp), but keeps the engine_library for table-API access
        lib2 = std::make_shared<eng::v2::engine_library>(eng::v2::engine_library::create_temporary(sch));
        db = lib2->database();
    }
    else
        db = eng::create_temporary_database(sch);
    if (seam::opened_handles().size() <= before) throw std::runtime_error("World: SQLite handle not captured");
    handle = seam::opened_handles().back();
    uuid = read_uuid(*this);
}
World::World(eng::engine_schema sch, const std::string& dir, int mode) : schema(sch), v2(is_v2(sch)), db(std::shared_ptr<dj::database_impl>())
{
    size_t before = seam::opened_handles().size();
    directory = dir;
    loaded_schema = eng::engine_schema::schema_3_0_0;  // sentinel: must be overwritten by load_database
    db = mode == 0 ? eng::create_database(dir, sch) : eng::load_database(dir, loaded_schema);
    if (seam::opened_handles().size() <= before) throw std::runtime_error("World: SQLite handle not captured");
    handle = seam::opened_handles().back();
    uuid = read_uuid(*this);
}
World::World(eng::engine_schema sch, dj::database adopted, sqlite3* h) : schema(sch), v2(is_v2(sch)), db(adopted)
{
    handle = h;
    uuid = read_uuid(*this);
}
World::~World() {}

static std::string demangle(const char* n)
{
    int st = 0;
    char* d = abi::__cxa_demangle(n, nullptr, nullptr, &st);
    std::string r = (st == 0 && d) ? d : n;
    free(d);
    return r;
}
Outcome World::guarded(const std::function<void()>& fn)
{
    Outcome o;
    seam::sql_ctl.horizon_hit = false;
    try
    {
        fn();
    }
    catch (const std::exception& e)
    {
        o.ok = false;
        o.std_ex = true;
        o.ex_type = demangle(typeid(e).name());
        o.what = e.what();
    }
    catch (const seam::HorizonExceeded&)
    {
        throw;
    }
    catch (...)
    {
        o.ok = false;
        o.std_ex = false;
        o.ex_type = demangle(abi::__cxa_current_exception_type() ? abi::__cxa_current_exception_type()->name() : "?");
    }
    o.horizon = seam::sql_ctl.horizon_hit;
    return o;
}

static std::optional<dj::crate> crate_arg(World& w, long long idx)
{
    if (idx < 0) return std::nullopt;
    return w.crates.at((size_t)idx);
}

Outcome World::apply(const Op& op)
{
    return guarded([&] {
        const std::string& f = op.f;
        auto I = [&](size_t k) { return op.i.at(k); };
        auto S = [&](size_t k) { return op.s.at(k); };
        if (f == "create_track")
        {
            auto s = example_snapshot((int)I(0), (int)tracks.size());
            add_waveform(s, v2);
            tracks.push_back(db.create_track(s));
        }
        else if (f == "update")
        {
            auto s = example_snapshot((int)I(1), (int)I(0));
            add_waveform(s, v2);
            tracks.at((size_t)I(0)).update(s);
        }
        else if (f == "update_tag")
        {
            // update from example snapshot I(1) carrying the path of tag I(2): with the tag of another live track the UNIQUE(path)
            // constraint makes a statement of the call fail by itself
            auto s = example_snapshot((int)I(1), (int)I(2));
            add_waveform(s, v2);
            tracks.at((size_t)I(0)).update(s);
        }
        else if (f == "create_track_tag")
        {
            auto s = example_snapshot((int)I(0), (int)I(1));
            add_waveform(s, v2);
            tracks.push_back(db.create_track(s));
        }
        else if (f == "remove_track") db.remove_track(tracks.at((size_t)I(0)));
        else if (f == "create_root") crates.push_back(db.create_root_crate(S(0)));
        else if (f == "create_root_after") crates.push_back(db.create_root_crate_after(S(0), crates.at((size_t)I(0))));
        else if (f == "create_sub") crates.push_back(crates.at((size_t)I(0)).create_sub_crate(S(0)));
        else if (f == "create_sub_after") crates.push_back(crates.at((size_t)I(0)).create_sub_crate_after(S(0), crates.at((size_t)I(1))));
        else if (f == "set_name") crates.at((size_t)I(0)).set_name(S(0));
        else if (f == "set_parent") crates.at((size_t)I(0)).set_parent(crate_arg(*this, I(1)));
        else if (f == "remove_crate") db.remove_crate(crates.at((size_t)I(0)));
        else if (f == "add_track") crates.at((size_t)I(0)).add_track(tracks.at((size_t)I(1)));
        else if (f == "add_track_id") crates.at((size_t)I(0)).add_track(tracks.at((size_t)I(1)).id());
        else if (f == "add_tracks")
        {
            // the iterator-range convenience: the named track twice (the second is a no-op by the statement)
            std::vector<dj::track> v{tracks.at((size_t)I(1)), tracks.at((size_t)I(1))};
            crates.at((size_t)I(0)).add_tracks(v.begin(), v.end());
        }
        else if (f == "remove_track_from") crates.at((size_t)I(0)).remove_track(tracks.at((size_t)I(1)));
        else if (f == "clear_tracks") crates.at((size_t)I(0)).clear_tracks();
        else
        {
            auto it = op_registry().find(f);
            if (it == op_registry().end()) throw std::logic_error("harness: unknown op " + f);
            it->second(*this, op);
        }
    });
}

// ------------------------------------------------------------------------------------------------------ raw SQL
std::vector<std::vector<std::string>> World::query(const std::string& sql) const
{
    std::vector<std::vector<std::string>> rows;
    sqlite3_stmt* st = nullptr;
    bool was_armed = seam::sql_ctl.armed;
    seam::sql_ctl.armed = false;  // harness queries are never counted or faulted
    if (sqlite3_prepare_v2(handle, sql.c_str(), -1, &st, nullptr) != SQLITE_OK)
    {
        std::string m = sqlite3_errmsg(handle);
        seam::sql_ctl.armed = was_armed;
        throw std::runtime_error("harness query failed: " + sql + ": " + m);
    }
    int rc;
    while ((rc = sqlite3_step(st)) == SQLITE_ROW)
    {
        std::vector<std::string> row;
        int n = sqlite3_column_count(st);
        for (int c = 0; c < n; ++c)
        {
            switch (sqlite3_column_type(st, c))
            {
                case SQLITE_NULL: row.push_back("<null>"); break;
                case SQLITE_BLOB: row.push_back("x'" + hex(sqlite3_column_blob(st, c), (size_t)sqlite3_column_bytes(st, c)) + "'"); break;
                case SQLITE_FLOAT:
                {
                    char b[40];
                    snprintf(b, sizeof b, "%.17g", sqlite3_column_double(st, c));
                    row.push_back(b);
                    break;
                }
                default:
                {
                    const char* t = (const char*)sqlite3_column_text(st, c);
                    row.push_back(t ? std::string(t, (size_t)sqlite3_column_bytes(st, c)) : "");
                }
            }
        }
        rows.push_back(std::move(row));
    }
    std::string err = rc == SQLITE_DONE ? "" : sqlite3_errmsg(handle);
    sqlite3_finalize(st);
    seam::sql_ctl.armed = was_armed;
    if (!err.empty()) throw std::runtime_error("harness query failed: " + sql + ": " + err);
    return rows;
}
void World::exec(const std::string& sql) { (void)query(sql); }
long long World::total_changes() const { return sqlite3_total_changes(handle); }

static bool masked_column(const std::string& col)
{
    static const char* names[] = {"dateAdded", "lastEditTime", "lastPackTime", "currentPlayedIndiciator", "dateCreated", "lastModifiedTime", "uuid"};
    for (auto n : names)
        if (col == n) return true;
    return false;
}
std::string World::dump() const
{
    std::string out;
    auto dbs = query("PRAGMA database_list");
    for (auto& d : dbs)
    {
        const std::string& dbn = d[1];
        auto tables = query("SELECT name FROM " + dbn + ".sqlite_master WHERE type='table' ORDER BY name");
        for (auto& t : tables)
        {
            const std::string& tn = t[0];
            auto cols = query("PRAGMA " + dbn + ".table_info('" + tn + "')");
            std::vector<bool> mask;
            mask.push_back(false);  // rowid
            for (auto& c : cols) mask.push_back(masked_column(c[1]));
            auto rows = query("SELECT rowid, * FROM " + dbn + ".\"" + tn + "\" ORDER BY rowid");
            out += "## " + dbn + "." + tn + " (" + std::to_string(rows.size()) + ")\n";
            for (auto& r : rows)
            {
                for (size_t c = 0; c < r.size(); ++c)
                {
                    if (c) out += '|';
                    if (c < mask.size() && mask[c] && r[c] != "<null>") out += "<t>";
                    else if (!uuid.empty() && r[c] == uuid) out += "<uuid>";
                    else out += r[c];
                }
                out += '\n';
            }
        }
    }
    return out;
}

Image World::save() const
{
    Image img;
    img.n_tracks = tracks.size();
    img.n_crates = crates.size();
    for (auto& d : query("PRAGMA database_list"))
    {
        const std::string& dbn = d[1];
        sqlite3_int64 n = 0;
        unsigned char* p = sqlite3_serialize(handle, dbn.c_str(), &n, 0);
        if (!p && n > 0) throw std::runtime_error("sqlite3_serialize failed for " + dbn);
        img.parts.push_back({dbn, std::string((const char*)p, (size_t)n)});
        sqlite3_free(p);
    }
    return img;
}
void World::restore(const Image& img)
{
    for (auto& part : img.parts)
    {
        if (part.second.empty()) continue;  // empty main schema of 1.x libraries
        auto* buf = (unsigned char*)sqlite3_malloc64(part.second.size());
        memcpy(buf, part.second.data(), part.second.size());
        int rc = sqlite3_deserialize(handle, part.first.c_str(), buf, (sqlite3_int64)part.second.size(), (sqlite3_int64)part.second.size(),
                                     SQLITE_DESERIALIZE_FREEONCLOSE | SQLITE_DESERIALIZE_RESIZEABLE);
        if (rc != SQLITE_OK) throw std::runtime_error("sqlite3_deserialize failed for " + part.first + ": " + sqlite3_errmsg(handle));
    }
    // Touch every schema once: the first statement after sqlite3_deserialize must be one that (re)loads the schema explicitly;
    // a statement that names a table directly was seen to fail with "no such table" on a freshly deserialized connection.
    for (auto& part : img.parts) (void)query("SELECT count(*) FROM " + part.first + ".sqlite_master");
    while (tracks.size() > img.n_tracks) tracks.pop_back();
    while (crates.size() > img.n_crates) crates.pop_back();
}

// ------------------------------------------------------------------------------------------------------ observation
namespace
{
struct Obs
{
    std::ostringstream os;
    template <class F>
    void fact(const std::string& name, F&& f)
    {
        os << name << " = ";
        try
        {
            f(os);
        }
        catch (const std::exception& e)
        {
            os << "!throws " << demangle(typeid(e).name());
        }
        os << "\n";
    }
};
std::string dbl(double d)
{
    char b[40];
    snprintf(b, sizeof b, "%.17g", d);
    return b;
}
template <class T>
void put_opt(std::ostream& os, const std::optional<T>& v)
{
    if (!v) os << "<none>";
    else os << *v;
}
void put_opt(std::ostream& os, const std::optional<double>& v)
{
    if (!v) os << "<none>";
    else os << dbl(*v);
}
void put_opt(std::ostream& os, const std::optional<std::string>& v)
{
    if (!v) os << "<none>";
    else os << '"' << hex(*v) << '"';
}
void put_color(std::ostream& os, const dj::pad_color& c) { os << (int)c.r << "/" << (int)c.g << "/" << (int)c.b << "/" << (int)c.a; }
void put_cue(std::ostream& os, const std::optional<dj::hot_cue>& c)
{
    if (!c) { os << "-"; return; }
    os << "{" << hex(c->label) << "@" << dbl(c->sample_offset) << " ";
    put_color(os, c->color);
    os << "}";
}
void put_loop(std::ostream& os, const std::optional<dj::loop>& c)
{
    if (!c) { os << "-"; return; }
    os << "{" << hex(c->label) << "@" << dbl(c->start_sample_offset) << ".." << dbl(c->end_sample_offset) << " ";
    put_color(os, c->color);
    os << "}";
}
void put_ids(std::ostream& os, const std::vector<dj::crate>& v)
{
    os << "[";
    for (size_t k = 0; k < v.size(); ++k) os << (k ? "," : "") << v[k].id();
    os << "]";
}
void put_ids(std::ostream& os, const std::vector<dj::track>& v)
{
    os << "[";
    for (size_t k = 0; k < v.size(); ++k) os << (k ? "," : "") << v[k].id();
    os << "]";
}
void put_waveform(std::ostream& os, const std::vector<dj::waveform_entry>& w)
{
    std::string raw;
    for (auto& e : w)
    {
        raw += (char)e.low.value; raw += (char)e.low.opacity; raw += (char)e.mid.value; raw += (char)e.mid.opacity; raw += (char)e.high.value; raw += (char)e.high.opacity;
    }
    os << w.size() << "#" << hash128(raw).substr(0, 16);
}
}  // namespace
std::string waveform_text(const std::vector<dj::waveform_entry>& w)
{
    std::ostringstream os;
    put_waveform(os, w);
    return os.str();
}
namespace
{
void put_grid(std::ostream& os, const std::vector<dj::beatgrid_marker>& g)
{
    os << "[";
    for (size_t k = 0; k < g.size(); ++k) os << (k ? "," : "") << g[k].index << "@" << dbl(g[k].sample_offset);
    os << "]";
}
}  // namespace

// One fact per snapshot field, formatted exactly like the corresponding getter fact, so that "getter == snapshot field" is a string comparison.
static void snapshot_facts(Obs& o, const std::string& p, const dj::track_snapshot& s)
{
    auto F = [&](const std::string& n, const std::function<void(std::ostream&)>& f) { o.fact(p + "snapshot." + n, f); };
    F("album", [&](std::ostream& os) { put_opt(os, s.album); });
    F("artist", [&](std::ostream& os) { put_opt(os, s.artist); });
    F("average_loudness", [&](std::ostream& os) { put_opt(os, s.average_loudness); });
    F("beatgrid", [&](std::ostream& os) { put_grid(os, s.beatgrid); });
    F("bitrate", [&](std::ostream& os) { put_opt(os, s.bitrate); });
    F("bpm", [&](std::ostream& os) { put_opt(os, s.bpm); });
    F("comment", [&](std::ostream& os) { put_opt(os, s.comment); });
    F("composer", [&](std::ostream& os) { put_opt(os, s.composer); });
    F("duration", [&](std::ostream& os) { if (s.duration) os << s.duration->count(); else os << "<none>"; });
    F("file_bytes", [&](std::ostream& os) { put_opt(os, s.file_bytes); });
    F("genre", [&](std::ostream& os) { put_opt(os, s.genre); });
    F("hot_cues", [&](std::ostream& os) { for (auto& c : s.hot_cues) put_cue(os, c); });
    F("key", [&](std::ostream& os) { if (s.key) os << (int)*s.key; else os << "<none>"; });
    F("last_played_at", [&](std::ostream& os) { if (s.last_played_at) os << std::chrono::duration_cast<std::chrono::milliseconds>(s.last_played_at->time_since_epoch()).count(); else os << "<none>"; });
    F("loops", [&](std::ostream& os) { for (auto& c : s.loops) put_loop(os, c); });
    F("main_cue", [&](std::ostream& os) { put_opt(os, s.main_cue); });
    F("publisher", [&](std::ostream& os) { put_opt(os, s.publisher); });
    F("rating", [&](std::ostream& os) { put_opt(os, s.rating); });
    F("relative_path", [&](std::ostream& os) { if (s.relative_path) os << '"' << hex(*s.relative_path) << '"'; else os << "<none>"; });
    F("sample_count", [&](std::ostream& os) { put_opt(os, s.sample_count); });
    F("sample_rate", [&](std::ostream& os) { put_opt(os, s.sample_rate); });
    F("title", [&](std::ostream& os) { put_opt(os, s.title); });
    F("track_number", [&](std::ostream& os) { put_opt(os, s.track_number); });
    F("waveform", [&](std::ostream& os) { put_waveform(os, s.waveform); });
    F("year", [&](std::ostream& os) { put_opt(os, s.year); });
}
std::string snapshot_str(const dj::track_snapshot& s)
{
    Obs o;
    snapshot_facts(o, "", s);
    return o.os.str();
}

std::string observe_track(const dj::track& t, bool even_if_invalid)
{
    Obs o;
    std::string p = "track#" + std::to_string(t.id()) + ".";
    o.fact(p + "is_valid", [&](std::ostream& os) { os << t.is_valid(); });
    bool valid = false;
    try { valid = t.is_valid(); } catch (...) {}
    if (!valid && !even_if_invalid) return o.os.str();
    o.fact(p + "album", [&](std::ostream& os) { put_opt(os, t.album()); });
    o.fact(p + "artist", [&](std::ostream& os) { put_opt(os, t.artist()); });
    o.fact(p + "average_loudness", [&](std::ostream& os) { put_opt(os, t.average_loudness()); });
    o.fact(p + "beatgrid", [&](std::ostream& os) { put_grid(os, t.beatgrid()); });
    o.fact(p + "bitrate", [&](std::ostream& os) { put_opt(os, t.bitrate()); });
    o.fact(p + "bpm", [&](std::ostream& os) { put_opt(os, t.bpm()); });
    o.fact(p + "comment", [&](std::ostream& os) { put_opt(os, t.comment()); });
    o.fact(p + "composer", [&](std::ostream& os) { put_opt(os, t.composer()); });
    o.fact(p + "duration", [&](std::ostream& os) { auto d = t.duration(); if (d) os << d->count(); else os << "<none>"; });
    o.fact(p + "file_extension", [&](std::ostream& os) { os << '"' << hex(t.file_extension()) << '"'; });
    o.fact(p + "filename", [&](std::ostream& os) { os << '"' << hex(t.filename()) << '"'; });
    o.fact(p + "genre", [&](std::ostream& os) { put_opt(os, t.genre()); });
    for (int k = 0; k < 8; ++k) o.fact(p + "hot_cue_at(" + std::to_string(k) + ")", [&](std::ostream& os) { put_cue(os, t.hot_cue_at(k)); });
    o.fact(p + "hot_cues", [&](std::ostream& os) { for (auto& c : t.hot_cues()) put_cue(os, c); });
    o.fact(p + "key", [&](std::ostream& os) { auto k = t.key(); if (k) os << (int)*k; else os << "<none>"; });
    o.fact(p + "last_played_at", [&](std::ostream& os) { auto k = t.last_played_at(); if (k) os << std::chrono::duration_cast<std::chrono::milliseconds>(k->time_since_epoch()).count(); else os << "<none>"; });
    for (int k = 0; k < 8; ++k) o.fact(p + "loop_at(" + std::to_string(k) + ")", [&](std::ostream& os) { put_loop(os, t.loop_at(k)); });
    o.fact(p + "loops", [&](std::ostream& os) { for (auto& c : t.loops()) put_loop(os, c); });
    o.fact(p + "main_cue", [&](std::ostream& os) { put_opt(os, t.main_cue()); });
    o.fact(p + "publisher", [&](std::ostream& os) { put_opt(os, t.publisher()); });
    o.fact(p + "rating", [&](std::ostream& os) { put_opt(os, t.rating()); });
    o.fact(p + "relative_path", [&](std::ostream& os) { os << '"' << hex(t.relative_path()) << '"'; });
    o.fact(p + "sample_count", [&](std::ostream& os) { put_opt(os, t.sample_count()); });
    o.fact(p + "sample_rate", [&](std::ostream& os) { put_opt(os, t.sample_rate()); });
    o.fact(p + "title", [&](std::ostream& os) { put_opt(os, t.title()); });
    o.fact(p + "track_number", [&](std::ostream& os) { put_opt(os, t.track_number()); });
    o.fact(p + "waveform", [&](std::ostream& os) { put_waveform(os, t.waveform()); });
    o.fact(p + "year", [&](std::ostream& os) { put_opt(os, t.year()); });
    try
    {
        snapshot_facts(o, p, t.snapshot());
    }
    catch (const std::exception& e)
    {
        o.os << p << "snapshot = !throws " << demangle(typeid(e).name()) << "\n";
    }
    o.fact(p + "containing_crates", [&](std::ostream& os) { auto v = t.containing_crates(); std::vector<int64_t> ids; for (auto& c : v) ids.push_back(c.id()); std::sort(ids.begin(), ids.end()); for (auto i : ids) os << i << ","; });
    return o.os.str();
}

std::map<std::string, std::string> facts_of(const std::string& observation, const std::string& strip_prefix)
{
    std::map<std::string, std::string> m;
    for (auto& line : split(observation, '\n'))
    {
        auto e = line.find(" = ");
        if (e == std::string::npos) continue;
        std::string n = line.substr(0, e);
        if (!strip_prefix.empty() && n.rfind(strip_prefix, 0) == 0) n = n.substr(strip_prefix.size());
        m[n] = line.substr(e + 3);
    }
    return m;
}

std::string observe(World& w, bool include_track_fields, bool include_handles)
{
    Obs o;
    auto& db = w.db;
    o.fact("db.uuid_is_stored_uuid", [&](std::ostream& os) { os << (db.uuid() == w.uuid); });
    o.fact("db.uuid", [&](std::ostream& os) { os << db.uuid(); });
    o.fact("db.version_name", [&](std::ostream& os) { os << db.version_name(); });
    o.fact("db.tracks", [&](std::ostream& os) { put_ids(os, db.tracks()); });
    o.fact("db.crates", [&](std::ostream& os) { put_ids(os, db.crates()); });
    o.fact("db.root_crates", [&](std::ostream& os) { put_ids(os, db.root_crates()); });
    std::vector<dj::crate> live_crates;
    try { live_crates = db.crates(); } catch (...) {}
    for (auto& c : live_crates)
    {
        std::string p = "crate#" + std::to_string(c.id()) + ".";
        o.fact(p + "name", [&](std::ostream& os) { os << '"' << hex(c.name()) << '"'; });
        o.fact(p + "parent", [&](std::ostream& os) { auto q = c.parent(); if (q) os << q->id(); else os << "<none>"; });
        o.fact(p + "children", [&](std::ostream& os) { put_ids(os, c.children()); });
        o.fact(p + "descendants", [&](std::ostream& os) { auto v = c.descendants(); std::vector<int64_t> ids; for (auto& x : v) ids.push_back(x.id()); std::sort(ids.begin(), ids.end()); for (auto i : ids) os << i << ","; });
        o.fact(p + "tracks", [&](std::ostream& os) { put_ids(os, c.tracks()); });
        o.fact(p + "by_id", [&](std::ostream& os) { auto q = db.crate_by_id(c.id()); os << (q ? q->id() : -1); });
    }
    if (include_handles)
    for (size_t k = 0; k < w.crates.size(); ++k)
        o.fact("handle.crate[" + std::to_string(k) + "]", [&](std::ostream& os) { os << w.crates[k].id() << " valid=" << w.crates[k].is_valid(); });
    if (include_handles)
    for (size_t k = 0; k < w.tracks.size(); ++k)
        o.fact("handle.track[" + std::to_string(k) + "]", [&](std::ostream& os) { os << w.tracks[k].id() << " valid=" << w.tracks[k].is_valid(); });
    if (include_track_fields)
    {
        std::vector<dj::track> live;
        try { live = db.tracks(); } catch (...) {}
        for (auto& t : live) o.os << observe_track(t);
    }
    return o.os.str();
}
}  // namespace wm
