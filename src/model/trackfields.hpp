// Single-field setter alphabet of djinterop::track with the allowed read-backs (normalisation table).
#pragma once
#include "world.hpp"

namespace wm
{
struct FieldValue
{
    std::string desc;
    std::function<void(dj::track&)> set;                 // through the single-field setter (empty for file_bytes, which has none)
    std::function<void(dj::track_snapshot&)> put;        // the same value placed in a snapshot (C01)
    std::vector<std::string> allowed_v1, allowed_v2;                  // texts the field's getter may return afterwards ({} = not predicted)
    std::vector<std::pair<std::string, std::string>> extra_expect;   // other facts of the same field group with their exact expected text
    bool must_succeed = true;                                         // false: the schema may legitimately refuse the value (all-or-nothing)
};
struct Field
{
    std::string name;                // setter name without "set_"; also the name of the primary getter fact
    std::vector<std::string> facts;  // getter facts that belong to this field (primary first); all others must not change
    std::vector<FieldValue> values;
    bool has_setter = true;
};
const std::vector<Field>& fields();
const Field* field_by_name(const std::string& n);

struct SlotValue
{
    std::string desc;
    std::optional<dj::hot_cue> cue;
    std::optional<dj::loop> loop;
};
const std::vector<SlotValue>& hot_cue_slot_values();
const std::vector<SlotValue>& loop_slot_values();
std::string slot_text(const SlotValue& v, bool loop);
}  // namespace wm
