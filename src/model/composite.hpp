// Composite alphabet shared by the checks that need "a range of reachable states" (C10, C11, C14, C15, C16):
// tracks (create from two snapshots, update, three representative setters, remove), crates (create root / sub, rename,
// re-parent, remove) and membership (add, remove, clear). Only operations whose preconditions hold are generated.
#pragma once
#include <set>

#include "explore.hpp"
#include "trackfields.hpp"

namespace wm
{
struct Comp
{
    struct C { bool live; int parent; };
    std::vector<bool> t;  // live flags by creation order
    std::vector<C> c;
    std::set<std::pair<int, int>> mem;
    int names = 0;
    bool below(int x, int anc) const
    {
        for (int p = c[x].parent, g = 0; p >= 0 && g < 16; p = c[p].parent, ++g)
            if (p == anc) return true;
        return false;
    }
};
struct CompositeBase
{
    using Model = Comp;
    static void init(Model&, World&) {}
    static std::string key_extra(const Model&) { return ""; }
    static int max_tracks() { return 2; }
    static int max_crates() { return 3; }
    static std::vector<std::string> seeds(eng::engine_schema)
    {
        return {"", "create_track(2);create_root(|s);add_track(0,0)", "create_track(0);create_root(|p);create_sub(0|q);remove_track(0);create_track(3)",
                // a chain of four crates with a track in the deepest one (deeper than the alphabet's crate limit lets the search build)
                "@1:create_root(|c0);create_sub(0|c1);create_sub(1|c2);create_sub(2|c3);create_track(2);add_track(3,0)",
                // a chain of three next to a two-crate tree: one move puts a subtree under a parent that has two ancestors
                // (the flattened hierarchy then needs rows for every ancestor of the new parent, not only for its parent)
                "@1:create_root(|d0);create_sub(0|d1);create_sub(1|d2);create_root(|d3);create_sub(3|d4)"};
    }
    static std::vector<Op> alphabet(const Model& m, const World&, int)
    {
        std::vector<Op> ops;
        std::vector<int> lt, lc;
        for (int k = 0; k < (int)m.t.size(); ++k)
            if (m.t[k]) lt.push_back(k);
        for (int k = 0; k < (int)m.c.size(); ++k)
            if (m.c[k].live) lc.push_back(k);
        if ((int)lt.size() < max_tracks() && (int)m.t.size() < max_tracks() + 2)
        {
            ops.push_back(Op{"create_track", {0}, {}});
            ops.push_back(Op{"create_track", {2}, {}});
        }
        for (int t : lt)
        {
            ops.push_back(Op{"update", {t, 1}, {}});
            ops.push_back(Op{"update", {t, 3}, {}});
            ops.push_back(Op{"set", {t, 2}, {"title"}});     // metadata row (1.x) / plain column (2.x)
            ops.push_back(Op{"set", {t, 1}, {"hot_cues"}});  // blob column, slots 0 and 7
            ops.push_back(Op{"set", {t, 2}, {"rating"}});    // integer metadata / plain column
            ops.push_back(Op{"remove_track", {t}, {}});
        }
        std::string nm = "k" + std::to_string(m.names);
        if ((int)lc.size() < max_crates() && (int)m.c.size() < max_crates() + 2)
        {
            ops.push_back(Op{"create_root", {}, {nm}});
            for (int p : lc) ops.push_back(Op{"create_sub", {p}, {nm}});
        }
        for (int c : lc)
        {
            ops.push_back(Op{"set_name", {c}, {"r" + std::to_string(m.names)}});
            if (m.c[c].parent >= 0) ops.push_back(Op{"set_parent", {c, -1}, {}});
            for (int p : lc)
                if (p != c && p != m.c[c].parent && !m.below(p, c)) ops.push_back(Op{"set_parent", {c, p}, {}});
            for (int t : lt)
            {
                if (!m.mem.count({c, t})) ops.push_back(Op{"add_track", {c, t}, {}});
                else ops.push_back(Op{"remove_track_from", {c, t}, {}});
            }
            bool any = false;
            for (auto& p : m.mem) any = any || p.first == c;
            if (any) ops.push_back(Op{"clear_tracks", {c}, {}});
            ops.push_back(Op{"remove_crate", {c}, {}});
        }
        return ops;
    }
    // model bookkeeping (only what the alphabet needs)
    static void advance(Model& m, const Op& op, const Outcome& r, World& w)
    {
        if (!r.ok) return;
        if (op.f == "create_track") m.t.push_back(true);
        else if (op.f == "remove_track")
        {
            m.t[op.i[0]] = false;
            for (auto it = m.mem.begin(); it != m.mem.end();) it = it->second == (int)op.i[0] ? m.mem.erase(it) : std::next(it);
        }
        else if (op.f == "create_root") { m.c.push_back({true, -1}); ++m.names; }
        else if (op.f == "create_sub") { m.c.push_back({true, (int)op.i[0]}); ++m.names; }
        else if (op.f == "create_root_after") { m.c.push_back({true, -1}); ++m.names; }
        else if (op.f == "create_sub_after") { m.c.push_back({true, (int)op.i[0]}); ++m.names; }
        else if (op.f == "set_name") ++m.names;
        else if (op.f == "set_parent") m.c[op.i[0]].parent = (int)op.i[1];
        else if (op.f == "remove_crate")
        {
            int c = (int)op.i[0];
            for (int k = 0; k < (int)m.c.size(); ++k)
                if (m.c[k].live && (k == c || m.below(k, c)))
                {
                    bool gone = true;
                    try { gone = !w.crates[k].is_valid(); } catch (...) {}
                    if (k == c || gone)
                    {
                        m.c[k].live = false;
                        for (auto it = m.mem.begin(); it != m.mem.end();) it = it->first == k ? m.mem.erase(it) : std::next(it);
                    }
                }
        }
        else if (op.f == "add_track") m.mem.insert({(int)op.i[0], (int)op.i[1]});
        else if (op.f == "remove_track_from") m.mem.erase({(int)op.i[0], (int)op.i[1]});
        else if (op.f == "clear_tracks")
            for (auto it = m.mem.begin(); it != m.mem.end();) it = it->first == (int)op.i[0] ? m.mem.erase(it) : std::next(it);
    }
};
}  // namespace wm
