// Explicit-state breadth-first search over the real library, level by level.
//   state      = content of the library database (canonical raw dump), keyed by a 128-bit hash
//   transition = one public API operation applied to the real objects AND to the reference model of the domain
// A frontier state is stored as the operation history that reached it; a worker rebuilds it by replay, takes a
// serialized image, and applies every operation of the alphabet in turn, restoring the image in between
// (every restore is followed by a re-dump that must equal the state's dump: "assert canon on replay").
#pragma once
#include <algorithm>
#include <map>
#include <unordered_map>
#include <unordered_set>

#include "common/agg.hpp"
#include "world.hpp"

namespace ex
{
using namespace vx;
using namespace wm;

struct Stats
{
    long long states = 0, transitions = 0, expanded = 0, unhealthy = 0;
    int depth_completed = 0;
    bool deadline_hit = false;
    std::map<std::string, int> depth_by_schema;
    std::vector<std::string> sample_histories;
    std::vector<std::string> all_histories;  // "<schema>|<history>" of every distinct state (Cfg::collect_histories)
};

struct Cfg
{
    std::vector<eng::engine_schema> schemas;
    int depth = 3;
    std::map<std::string, int> depth_override;  // schema name -> depth
    double deadline_abs = 0;
    long vm_budget = 50000000;
    int items_per_task = 4;
    bool check_restore = true;
    bool collect_histories = false;
    bool visit_states = false;  // call D::visit once for every distinct state (including the states of the last level)
};

// Domain D provides:
//   struct Model;                                              reference model (copyable)
//   static std::vector<std::string> seeds(schema);             seed histories ("" = empty library)
//   static std::vector<Op> alphabet(const Model&, const World&, int depth_left);
//   static void visit(World&, Model&, const std::string& cid, Agg&);   called once per distinct state when Cfg::visit_states is set
//   static std::string key_extra(const Model&);                harness-side state that is not in the database (e.g. ids of stale handles)
//   static bool step(World&, Model&, const Op&, const Outcome&, Agg&, const std::string& cid, bool checking);
//        applies the operation's effect to the model (given what the implementation did), and, when `checking`,
//        compares implementation and model and evaluates the invariants, reporting violations into Agg.
//        Returns false if the resulting state must not be expanded (it violates the property).
template <class D>
inline bool rebuild(World& w, typename D::Model& m, const std::vector<Op>& hist, Agg& a)
{
    for (auto& op : hist)
    {
        Outcome r = w.apply(op);
        D::step(w, m, op, r, a, "", false);
    }
    return true;
}

template <class D>
Stats explore(const Options& o, const Cfg& cfg, Reporter& rep, Agg& total)
{
    Stats st;
    struct PerSchema
    {
        eng::engine_schema s;
        std::unordered_set<std::string> seen;
        std::vector<std::string> frontier;  // histories
        std::map<int, std::vector<std::string>> delayed;  // seeds "@k:<history>" join the frontier after level k (they get depth - k further operations)
        int depth = 0, done_depth = 0;
    };
    std::vector<PerSchema> ps;
    for (auto s : cfg.schemas)
    {
        PerSchema p;
        p.s = s;
        auto it = cfg.depth_override.find(schema_name(s));
        p.depth = it == cfg.depth_override.end() ? cfg.depth : it->second;
        ps.push_back(p);
    }
    int max_depth = 0;
    for (auto& p : ps) max_depth = std::max(max_depth, p.depth);
    seam::sql_ctl.vm_budget = cfg.vm_budget;

    // level 0: seeds. They are replayed in workers to obtain their keys.
    struct Task
    {
        size_t schema_idx;
        std::vector<std::string> items;  // histories to expand (or, at level 0, to register)
    };
    for (int level = 0; level <= max_depth + (cfg.visit_states ? 1 : 0); ++level)
    {
        std::vector<Task> tasks;
        for (size_t si = 0; si < ps.size(); ++si)
        {
            auto& p = ps[si];
            if (level == 0)
            {
                Task t{si, {}};
                for (auto seed : D::seeds(p.s))
                {
                    int delay = 0;
                    if (seed.size() > 2 && seed[0] == '@')
                    {
                        delay = std::min(atoi(seed.c_str() + 1), p.depth);  // never later than the last level of this schema
                        seed = seed.substr(seed.find(':') + 1);
                        if (delay > 0) p.delayed[delay].push_back(seed);
                    }
                    t.items.push_back(seed);
                }
                tasks.push_back(t);
                continue;
            }
            if (level > p.depth + (cfg.visit_states ? 1 : 0)) continue;
            for (size_t k = 0; k < p.frontier.size(); k += (size_t)cfg.items_per_task)
            {
                Task t{si, {}};
                for (size_t j = k; j < p.frontier.size() && j < k + (size_t)cfg.items_per_task; ++j) t.items.push_back(p.frontier[j]);
                tasks.push_back(t);
            }
        }
        if (tasks.empty()) break;
        const int depth_left_base = level;
        bool dl = false;
        auto res = run_pool_sub(
            tasks.size(), o.jobs, 600,
            [&](size_t ti, int64_t from, Emitter& em, Sub& sub) {
                Agg a;
                a.live = &em;
                const Task& t = tasks[ti];
                eng::engine_schema sch = ps[t.schema_idx].s;
                const std::string sname = schema_name(sch);
                for (size_t it = 0; it < t.items.size(); ++it)
                {
                    if ((int64_t)(it + 1) * 100000 <= from) continue;  // finished before a crash
                    auto hist = parse_history(t.items[it]);
                    World w(sch);
                    typename D::Model m;
                    D::init(m, w);
                    rebuild<D>(w, m, hist, a);
                    std::string d0 = w.dump();
                    if (level == 0)
                    {
                        em.emit("S\t" + hash128(d0 + D::key_extra(m)) + "\t" + t.items[it]);
                        continue;
                    }
                    if (cfg.visit_states && from <= (int64_t)it * 100000)
                    {
                        sub.at((int64_t)it * 100000);
                        sub.label(sname + "|" + t.items[it] + " [visit]");
                        D::visit(w, m, sname + "|" + t.items[it], a);
                        a.count("states_visited");
                    }
                    if (level > ps[t.schema_idx].depth) { a.flush(em); continue; }  // visit-only pass over the last level
                    Image img = w.save();
                    auto ops = D::alphabet(m, w, ps[t.schema_idx].depth - depth_left_base);
                    a.count("expanded");
                    for (size_t k = 0; k < ops.size(); ++k)
                    {
                        int64_t step_id = (int64_t)it * 100000 + (int64_t)k;
                        if (step_id < from) continue;
                        sub.at(step_id);
                        std::string cid = sname + "|" + t.items[it] + (t.items[it].empty() ? "" : ";") + ops[k].str();
                        sub.label(cid);
                        typename D::Model m2 = m;
                        Outcome r;
                        {
                            seam::SqlArm arm;
                            r = w.apply(ops[k]);
                        }
                        a.count("transitions");
                        // connection state the canonical dump cannot show: a transaction left open by the call changes every later call
                        if (sqlite3_get_autocommit(w.handle) == 0)
                        {
                            a.violation(std::string(is_v2(sch) ? "v2" : "v1") + "|" + ops[k].f + "|transaction_left_open", "[" + sname + "] " + ops[k].str() + (r.ok ? " returned" : " threw") + " and left a transaction open on the connection", cid);
                            try { w.exec("ROLLBACK"); } catch (...) {}
                        }
                        if (r.horizon) a.violation(std::string(is_v2(sch) ? "v2" : "v1") + "|" + ops[k].f + "|sql_statement_does_not_terminate", "a single SQL statement exceeded the VM-step horizon during " + ops[k].str(), cid);
                        bool healthy = D::step(w, m2, ops[k], r, a, cid, true) && !r.horizon;
                        std::string d1 = w.dump();
                        if (d1 != d0 || D::key_extra(m2) != D::key_extra(m)) em.emit(std::string("T\t") + hash128(d1 + D::key_extra(m2)) + "\t" + (healthy ? "1" : "0") + "\t" + cid.substr(sname.size() + 1));
                        else a.count("self_loops");
                        if (!healthy) a.count("unhealthy_transitions");
                        w.restore(img);
                        if (cfg.check_restore && w.dump() != d0) throw std::runtime_error("restore did not reproduce the state (" + cid + ")");
                    }
                    if (a.counters.size()) a.flush(em);
                }
                a.flush(em);
            },
            nullptr, cfg.deadline_abs, &dl, 512);
        // merge
        std::vector<std::vector<std::string>> next(ps.size());
        bool level_complete = !dl;
        for (size_t ti = 0; ti < res.size(); ++ti)
        {
            auto& r = res[ti];
            auto& p = ps[tasks[ti].schema_idx];
            for (auto& l : r.lines)
            {
                if (l.size() > 2 && l[1] == '\t' && (l[0] == 'S' || l[0] == 'T'))
                {
                    auto parts = split(l, '\t');
                    if (l[0] == 'S')
                    {
                        if (p.seen.insert(parts[1]).second)
                        {
                            std::string hist0 = parts.size() > 2 ? parts[2] : "";
                            bool is_delayed = false;
                            for (auto& kv : p.delayed)
                                if (kv.first > 0 && std::find(kv.second.begin(), kv.second.end(), hist0) != kv.second.end()) is_delayed = true;
                            if (!is_delayed) next[tasks[ti].schema_idx].push_back(hist0);
                            if (cfg.collect_histories) st.all_histories.push_back(schema_name(p.s) + "|" + (parts.size() > 2 ? parts[2] : ""));
                        }
                    }
                    else
                    {
                        bool healthy = parts[2] == "1";
                        if (p.seen.insert(parts[1]).second)
                        {
                            if (healthy) next[tasks[ti].schema_idx].push_back(parts[3]);
                            else ++st.unhealthy;
                            if (cfg.collect_histories) st.all_histories.push_back(schema_name(p.s) + "|" + parts[3]);
                            if (st.sample_histories.size() < 6 && level >= 2) st.sample_histories.push_back(schema_name(p.s) + "|" + parts[3]);
                        }
                    }
                }
                else
                    total.merge_line(l, rep);
            }
            const std::string fam = is_v2(p.s) ? "v2" : "v1";
            for (auto& sc : r.subcrashes)
            {
                total.count("crashed_transitions");
                std::string opname = "?";
                auto semi = sc.label.rfind(';');
                auto bar = sc.label.rfind('|', sc.label.find('('));
                std::string last = sc.label.substr(std::max(semi == std::string::npos ? 0 : semi + 1, bar == std::string::npos ? 0 : bar + 1));
                opname = last.substr(0, last.find('('));
                rep.add(Violation{fam + "|" + opname + "|crash:" + sc.kind + "@" + sc.frame, opname + (sc.timeout ? " hangs" : " dies") + " (" + sc.kind + ") in " + sc.frame, sc.label, Json(sc.head)});
            }
            if (r.status != CaseResult::Ok)
            {
                level_complete = false;
                rep.add(Violation{fam + "|task|crash:" + r.crash_kind + "@" + r.crash_frame, "explorer task died (" + r.crash_kind + ") in " + r.crash_frame, schema_name(p.s) + "|" + tasks[ti].items[0], Json(r.crash_head)});
            }
            else if (r.crash_kind == "not-run")
                level_complete = false;
        }
        for (size_t si = 0; si < ps.size(); ++si)
        {
            if (level == 0 || level <= ps[si].depth + (cfg.visit_states ? 1 : 0))
            {
                if (level > 0)
                {
                    auto dl2 = ps[si].delayed.find(level);
                    if (dl2 != ps[si].delayed.end())
                        for (auto& h : dl2->second) next[si].push_back(h);
                }
                ps[si].frontier = std::move(next[si]);
                if (level_complete) ps[si].done_depth = level;
            }
        }
        if (!level_complete)
        {
            st.deadline_hit = dl;
            break;
        }
        st.depth_completed = level;
    }
    for (auto& p : ps)
    {
        st.states += (long long)p.seen.size();
        st.depth_by_schema[schema_name(p.s)] = std::min(p.done_depth, p.depth);
    }
    st.transitions = total.get("transitions") + total.get("crashed_transitions");
    st.expanded = total.get("expanded");
    return st;
}

// Replay of one case id "<schema>|<history>": the last operation is checked, the rest only rebuilt.
template <class D>
void replay(const std::string& cid, Reporter& rep, Agg& total)
{
    auto bar = cid.find('|');
    auto sch = schema_by_name(cid.substr(0, bar));
    if (!sch) throw std::runtime_error("bad schema in case id");
    auto hist = parse_history(cid.substr(bar + 1));
    auto r = run_isolated(120, [&](Emitter& em) {
        Agg a;
        seam::sql_ctl.vm_budget = 50000000;
        World w(*sch);
        typename D::Model m;
        D::init(m, w);
        for (size_t k = 0; k < hist.size(); ++k)
        {
            bool last = k + 1 == hist.size();
            Outcome out;
            {
                seam::SqlArm arm;
                out = w.apply(hist[k]);
            }
            printf("  %s -> %s %s\n", hist[k].str().c_str(), out.ok ? "ok" : ("throws " + out.ex_type).c_str(), out.what.c_str());
            if (last && out.horizon) a.violation(std::string(is_v2(*sch) ? "v2" : "v1") + "|" + hist[k].f + "|sql_statement_does_not_terminate", "VM-step horizon exceeded", cid);
            D::step(w, m, hist[k], out, a, cid, last);
        }
        fflush(stdout);
        a.flush(em);
    });
    for (auto& l : r.lines) total.merge_line(l, rep);
    if (r.status != CaseResult::Ok)
        rep.add(Violation{std::string(is_v2(*sch) ? "v2" : "v1") + "|" + (hist.empty() ? "?" : hist.back().f) + "|crash:" + r.crash_kind + "@" + r.crash_frame, "died: " + r.crash_kind + " in " + r.crash_frame, cid, Json(r.crash_head)});
}
}  // namespace ex
