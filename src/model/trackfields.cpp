// The single-field setter alphabet of djinterop::track: for every field a handful of values (absent, sentinel, ordinary,
// edge), each with the texts its getter may legitimately return afterwards (the C01/C06 normalisation table, written
// here independently of the library). Registered as World operation  set(<track>,<value index>|<field>)  and, for the
// per-slot setters,  set_slot(<track>,<value index>,<slot>|hot_cue_at)  /  ...|loop_at.
#include "trackfields.hpp"

#include <climits>

namespace wm
{
using namespace vx;
namespace
{
std::string q(const std::string& s) { return '"' + hex(s) + '"'; }
std::string dbl(double d)
{
    char b[40];
    snprintf(b, sizeof b, "%.17g", d);
    return b;
}
const std::string NONE = "<none>";

std::string cue_text(const std::optional<dj::hot_cue>& c)
{
    if (!c) return "-";
    return "{" + hex(c->label) + "@" + dbl(c->sample_offset) + " " + std::to_string(c->color.r) + "/" + std::to_string(c->color.g) + "/" + std::to_string(c->color.b) + "/" + std::to_string(c->color.a) + "}";
}
std::string loop_text(const std::optional<dj::loop>& c)
{
    if (!c) return "-";
    return "{" + hex(c->label) + "@" + dbl(c->start_sample_offset) + ".." + dbl(c->end_sample_offset) + " " + std::to_string(c->color.r) + "/" + std::to_string(c->color.g) + "/" + std::to_string(c->color.b) + "/" + std::to_string(c->color.a) + "}";
}
template <class V, class F>
std::string list8(const std::vector<std::optional<V>>& v, F text)
{
    std::string s;
    for (size_t k = 0; k < 8; ++k) s += text(k < v.size() ? v[k] : std::optional<V>{});
    return s;
}
std::string grid_text(const std::vector<dj::beatgrid_marker>& g)
{
    std::string s = "[";
    for (size_t k = 0; k < g.size(); ++k) s += (k ? "," : "") + std::to_string(g[k].index) + "@" + dbl(g[k].sample_offset);
    return s + "]";
}

std::vector<Field> build()
{
    std::vector<Field> F;
    using Tr = dj::track;
    // `set` is the std::optional<std::string> overload, `set_plain` the std::string convenience overload (used for one value)
    auto str_field = [&](const std::string& name, std::optional<std::string> dj::track_snapshot::*mem, std::function<void(Tr&, std::optional<std::string>)> set, std::function<void(Tr&, std::string)> set_plain) {
        Field f;
        f.name = name;
        f.facts = {name};
        std::string utf = "\xc3\x9cn\xc3\xaf \xe2\x99\xab";
        std::string lng(300, 'x');
        struct V { std::optional<std::string> v; const char* d; bool plain; };
        for (auto& v : std::vector<V>{{std::nullopt, "absent", true}, {std::string(""), "empty string", false}, {"Val " + name, "ordinary", true}, {utf, "multi-byte UTF-8", true}, {lng, "300 bytes", true}})
        {
            FieldValue fv;
            fv.desc = v.d;
            auto val = v.v;
            if (std::string(v.d) == "multi-byte UTF-8") fv.set = [set_plain, val](Tr& t) { set_plain(t, *val); };
            else fv.set = [set, val](Tr& t) { set(t, val); };
            fv.put = [mem, val](dj::track_snapshot& sn) { sn.*mem = val; };
            if (!val) fv.allowed_v1 = fv.allowed_v2 = {NONE};
            else if (val->empty()) fv.allowed_v1 = fv.allowed_v2 = {q(""), NONE};  // "" vs absent: the formats cannot always tell them apart
            else fv.allowed_v1 = fv.allowed_v2 = {q(*val)};
            fv.must_succeed = true;
            f.values.push_back(fv);
        }
        F.push_back(f);
    };
    str_field("album", &dj::track_snapshot::album, [](Tr& t, std::optional<std::string> v) { t.set_album(v); }, [](Tr& t, std::string v) { t.set_album(std::move(v)); });
    str_field("artist", &dj::track_snapshot::artist, [](Tr& t, std::optional<std::string> v) { t.set_artist(v); }, [](Tr& t, std::string v) { t.set_artist(std::move(v)); });
    str_field("comment", &dj::track_snapshot::comment, [](Tr& t, std::optional<std::string> v) { t.set_comment(v); }, [](Tr& t, std::string v) { t.set_comment(std::move(v)); });
    str_field("composer", &dj::track_snapshot::composer, [](Tr& t, std::optional<std::string> v) { t.set_composer(v); }, [](Tr& t, std::string v) { t.set_composer(std::move(v)); });
    str_field("genre", &dj::track_snapshot::genre, [](Tr& t, std::optional<std::string> v) { t.set_genre(v); }, [](Tr& t, std::string v) { t.set_genre(std::move(v)); });
    str_field("publisher", &dj::track_snapshot::publisher, [](Tr& t, std::optional<std::string> v) { t.set_publisher(v); }, [](Tr& t, std::string v) { t.set_publisher(std::move(v)); });
    str_field("title", &dj::track_snapshot::title, [](Tr& t, std::optional<std::string> v) { t.set_title(v); }, [](Tr& t, std::string v) { t.set_title(std::move(v)); });

    // `put` of the value most recently added to f
    auto put = [&](Field& f, std::function<void(dj::track_snapshot&)> p) { f.values.back().put = std::move(p); };
    auto add = [&](Field& f, const std::string& desc, std::function<void(Tr&)> set, std::vector<std::string> a1, std::vector<std::string> a2, bool must = true) {
        FieldValue fv;
        fv.desc = desc;
        fv.set = std::move(set);
        fv.allowed_v1 = std::move(a1);
        fv.allowed_v2 = std::move(a2);
        fv.must_succeed = must;
        f.values.push_back(fv);
    };
    {
        Field f;
        f.name = "average_loudness";
        f.facts = {"average_loudness"};
        add(f, "absent", [](Tr& t) { t.set_average_loudness(std::nullopt); }, {NONE}, {NONE});
        put(f, [](dj::track_snapshot& sn) { sn.average_loudness = std::nullopt; });
        add(f, "0 (the 'no value' sentinel)", [](Tr& t) { t.set_average_loudness(0.0); }, {NONE, "0"}, {NONE, "0"}, false);
        put(f, [](dj::track_snapshot& sn) { sn.average_loudness = 0.0; });
        add(f, "0.5", [](Tr& t) { t.set_average_loudness(0.5); }, {"0.5"}, {"0.5"});
        put(f, [](dj::track_snapshot& sn) { sn.average_loudness = 0.5; });
        add(f, "1", [](Tr& t) { t.set_average_loudness(1.0); }, {"1"}, {"1"});
        put(f, [](dj::track_snapshot& sn) { sn.average_loudness = 1.0; });
        F.push_back(f);
    }
    {
        Field f;
        f.name = "bitrate";
        f.facts = {"bitrate"};
        add(f, "absent", [](Tr& t) { t.set_bitrate(std::nullopt); }, {NONE}, {NONE});
        put(f, [](dj::track_snapshot& sn) { sn.bitrate = std::nullopt; });
        add(f, "0", [](Tr& t) { t.set_bitrate(0); }, {"0", NONE}, {"0", NONE});
        put(f, [](dj::track_snapshot& sn) { sn.bitrate = 0; });
        add(f, "320", [](Tr& t) { t.set_bitrate(320); }, {"320"}, {"320"});
        put(f, [](dj::track_snapshot& sn) { sn.bitrate = 320; });
        add(f, "INT_MAX", [](Tr& t) { t.set_bitrate(INT_MAX); }, {std::to_string(INT_MAX)}, {std::to_string(INT_MAX)});
        put(f, [](dj::track_snapshot& sn) { sn.bitrate = INT_MAX; });
        F.push_back(f);
    }
    {
        Field f;
        f.name = "bpm";
        f.facts = {"bpm"};
        add(f, "absent", [](Tr& t) { t.set_bpm(std::nullopt); }, {NONE}, {NONE});
        put(f, [](dj::track_snapshot& sn) { sn.bpm = std::nullopt; });
        add(f, "0", [](Tr& t) { t.set_bpm(0.0); }, {"0", NONE}, {"0", NONE});
        put(f, [](dj::track_snapshot& sn) { sn.bpm = 0.0; });
        add(f, "128", [](Tr& t) { t.set_bpm(128.0); }, {"128"}, {"128"});
        put(f, [](dj::track_snapshot& sn) { sn.bpm = 128.0; });
        // 1.x stores whole beats per minute (and a beat grid, when present, defines the tempo)
        add(f, "123.456", [](Tr& t) { t.set_bpm(123.456); }, {"123.456", "123"}, {"123.456"});
        put(f, [](dj::track_snapshot& sn) { sn.bpm = 123.456; });
        F.push_back(f);
    }
    {
        Field f;
        f.name = "duration";
        f.facts = {"duration"};
        using ms = std::chrono::milliseconds;
        add(f, "absent", [](Tr& t) { t.set_duration(std::nullopt); }, {NONE}, {NONE});
        put(f, [](dj::track_snapshot& sn) { sn.duration = std::nullopt; });
        add(f, "0 ms", [](Tr& t) { t.set_duration(ms{0}); }, {"0", NONE}, {"0", NONE});
        put(f, [](dj::track_snapshot& sn) { sn.duration = ms{0}; });
        add(f, "999 ms", [](Tr& t) { t.set_duration(ms{999}); }, {"0", NONE}, {"0", NONE});  // whole-second resolution
        put(f, [](dj::track_snapshot& sn) { sn.duration = ms{999}; });
        add(f, "210000 ms", [](Tr& t) { t.set_duration(ms{210000}); }, {"210000"}, {"210000"});
        put(f, [](dj::track_snapshot& sn) { sn.duration = ms{210000}; });
        add(f, "210999 ms", [](Tr& t) { t.set_duration(ms{210999}); }, {"210000"}, {"210000"});
        put(f, [](dj::track_snapshot& sn) { sn.duration = ms{210999}; });
        F.push_back(f);
    }
    {
        Field f;
        f.name = "key";
        f.facts = {"key"};
        add(f, "absent", [](Tr& t) { t.set_key(std::nullopt); }, {NONE}, {NONE});
        put(f, [](dj::track_snapshot& sn) { sn.key = std::nullopt; });
        // c_major is 0, which the 1.x track-data blob cannot tell from "no key": 1.x may refuse it
        add(f, "c_major (0)", [](Tr& t) { t.set_key(dj::musical_key::c_major); }, {"0"}, {"0"}, false);
        put(f, [](dj::track_snapshot& sn) { sn.key = dj::musical_key::c_major; });
        add(f, "a_minor", [](Tr& t) { t.set_key(dj::musical_key::a_minor); }, {"1"}, {"1"});
        put(f, [](dj::track_snapshot& sn) { sn.key = dj::musical_key::a_minor; });
        add(f, "d_minor (23)", [](Tr& t) { t.set_key(dj::musical_key::d_minor); }, {"23"}, {"23"});
        put(f, [](dj::track_snapshot& sn) { sn.key = dj::musical_key::d_minor; });
        F.push_back(f);
    }
    {
        Field f;
        f.name = "last_played_at";
        f.facts = {"last_played_at"};
        using namespace std::chrono;
        auto tp = [](long long ms_) { return system_clock::time_point{milliseconds{ms_}}; };
        add(f, "absent", [](Tr& t) { t.set_last_played_at(std::nullopt); }, {NONE}, {NONE});
        put(f, [](dj::track_snapshot& sn) { sn.last_played_at = std::nullopt; });
        add(f, "epoch", [tp](Tr& t) { t.set_last_played_at(tp(0)); }, {"0", NONE}, {"0", NONE});
        put(f, [tp](dj::track_snapshot& sn) { sn.last_played_at = tp(0); });
        add(f, "2017-10-30", [tp](Tr& t) { t.set_last_played_at(tp(1509321800000ll)); }, {"1509321800000"}, {"1509321800000"});
        put(f, [tp](dj::track_snapshot& sn) { sn.last_played_at = tp(1509321800000ll); });
        add(f, "half a second later", [tp](Tr& t) { t.set_last_played_at(tp(1509321800500ll)); }, {"1509321800000"}, {"1509321800000"});  // whole seconds
        put(f, [tp](dj::track_snapshot& sn) { sn.last_played_at = tp(1509321800500ll); });
        F.push_back(f);
    }
    {
        Field f;
        f.name = "main_cue";
        f.facts = {"main_cue"};
        add(f, "absent", [](Tr& t) { t.set_main_cue(std::nullopt); }, {NONE}, {NONE});
        put(f, [](dj::track_snapshot& sn) { sn.main_cue = std::nullopt; });
        add(f, "0 (sentinel)", [](Tr& t) { t.set_main_cue(0.0); }, {NONE, "0"}, {NONE, "0"}, false);
        put(f, [](dj::track_snapshot& sn) { sn.main_cue = 0.0; });
        add(f, "12345.5", [](Tr& t) { t.set_main_cue(12345.5); }, {"12345.5"}, {"12345.5"});
        put(f, [](dj::track_snapshot& sn) { sn.main_cue = 12345.5; });
        F.push_back(f);
    }
    {
        Field f;
        f.name = "rating";
        f.facts = {"rating"};
        add(f, "absent", [](Tr& t) { t.set_rating(std::nullopt); }, {NONE}, {NONE, "0"});
        put(f, [](dj::track_snapshot& sn) { sn.rating = std::nullopt; });
        add(f, "0", [](Tr& t) { t.set_rating(0); }, {"0", NONE}, {"0", NONE});
        put(f, [](dj::track_snapshot& sn) { sn.rating = 0; });
        add(f, "50", [](Tr& t) { t.set_rating(50); }, {"50"}, {"50"});
        put(f, [](dj::track_snapshot& sn) { sn.rating = 50; });
        add(f, "100", [](Tr& t) { t.set_rating(100); }, {"100"}, {"100"});
        put(f, [](dj::track_snapshot& sn) { sn.rating = 100; });
        add(f, "101 (clamped)", [](Tr& t) { t.set_rating(101); }, {"100"}, {"100"});
        put(f, [](dj::track_snapshot& sn) { sn.rating = 101; });
        add(f, "-1 (clamped)", [](Tr& t) { t.set_rating(-1); }, {"0", NONE}, {"0", NONE});
        put(f, [](dj::track_snapshot& sn) { sn.rating = -1; });
        F.push_back(f);
    }
    {
        Field f;
        f.name = "relative_path";
        f.facts = {"relative_path", "filename", "file_extension"};
        struct P { const char *path, *file, *ext; };
        for (auto& p : std::vector<P>{{"../a/b c.mp3", "b c.mp3", "mp3"}, {"noext", "noext", ""}, {"dir.d/file.tar.gz", "file.tar.gz", "gz"}, {"rips.2019/side_a", "side_a", ""}})
        {
            FieldValue fv;
            fv.desc = p.path;
            std::string path = p.path;
            fv.set = [path](Tr& t) { t.set_relative_path(path); };
            fv.put = [path](dj::track_snapshot& sn) { sn.relative_path = path; };
            fv.allowed_v1 = fv.allowed_v2 = {q(p.path)};
            fv.extra_expect = {{"filename", q(p.file)}, {"file_extension", q(p.ext)}};
            fv.must_succeed = true;
            f.values.push_back(fv);
        }
        F.push_back(f);
    }
    {
        Field f;
        f.name = "sample_count";
        f.facts = {"sample_count"};
        add(f, "absent", [](Tr& t) { t.set_sample_count(std::nullopt); }, {NONE}, {NONE});
        put(f, [](dj::track_snapshot& sn) { sn.sample_count = std::nullopt; });
        add(f, "0 (sentinel)", [](Tr& t) { t.set_sample_count(0ull); }, {NONE, "0"}, {NONE, "0"}, false);
        put(f, [](dj::track_snapshot& sn) { sn.sample_count = 0ull; });
        add(f, "88200", [](Tr& t) { t.set_sample_count(88200ull); }, {"88200"}, {"88200"});
        put(f, [](dj::track_snapshot& sn) { sn.sample_count = 88200ull; });
        add(f, "1", [](Tr& t) { t.set_sample_count(1ull); }, {"1"}, {"1"});
        put(f, [](dj::track_snapshot& sn) { sn.sample_count = 1ull; });
        F.push_back(f);
    }
    {
        Field f;
        f.name = "sample_rate";
        f.facts = {"sample_rate"};
        add(f, "absent", [](Tr& t) { t.set_sample_rate(std::nullopt); }, {NONE}, {NONE});
        put(f, [](dj::track_snapshot& sn) { sn.sample_rate = std::nullopt; });
        add(f, "0 (sentinel)", [](Tr& t) { t.set_sample_rate(0.0); }, {NONE, "0"}, {NONE, "0"}, false);
        put(f, [](dj::track_snapshot& sn) { sn.sample_rate = 0.0; });
        add(f, "44100", [](Tr& t) { t.set_sample_rate(44100.0); }, {"44100"}, {"44100"});
        put(f, [](dj::track_snapshot& sn) { sn.sample_rate = 44100.0; });
        add(f, "48000.5", [](Tr& t) { t.set_sample_rate(48000.5); }, {"48000.5"}, {"48000.5"});
        put(f, [](dj::track_snapshot& sn) { sn.sample_rate = 48000.5; });
        // a rate that truncates to zero as an integer (lengths are computed by integer division) and one below the waveform quantum
        add(f, "0.5", [](Tr& t) { t.set_sample_rate(0.5); }, {"0.5"}, {"0.5"}, false);
        put(f, [](dj::track_snapshot& sn) { sn.sample_rate = 0.5; });
        add(f, "209", [](Tr& t) { t.set_sample_rate(209.0); }, {"209"}, {"209"}, false);
        put(f, [](dj::track_snapshot& sn) { sn.sample_rate = 209.0; });
        F.push_back(f);
    }
    {
        Field f;
        f.name = "track_number";
        f.facts = {"track_number"};
        add(f, "absent", [](Tr& t) { t.set_track_number(std::nullopt); }, {NONE}, {NONE});
        put(f, [](dj::track_snapshot& sn) { sn.track_number = std::nullopt; });
        add(f, "0", [](Tr& t) { t.set_track_number(0); }, {"0", NONE}, {"0", NONE});
        put(f, [](dj::track_snapshot& sn) { sn.track_number = 0; });
        add(f, "7", [](Tr& t) { t.set_track_number(7); }, {"7"}, {"7"});
        put(f, [](dj::track_snapshot& sn) { sn.track_number = 7; });
        add(f, "-1", [](Tr& t) { t.set_track_number(-1); }, {"-1"}, {"-1"});
        put(f, [](dj::track_snapshot& sn) { sn.track_number = -1; });
        F.push_back(f);
    }
    {
        Field f;
        f.name = "year";
        f.facts = {"year"};
        add(f, "absent", [](Tr& t) { t.set_year(std::nullopt); }, {NONE}, {NONE});
        put(f, [](dj::track_snapshot& sn) { sn.year = std::nullopt; });
        add(f, "0", [](Tr& t) { t.set_year(0); }, {"0", NONE}, {"0", NONE});
        put(f, [](dj::track_snapshot& sn) { sn.year = 0; });
        add(f, "1999", [](Tr& t) { t.set_year(1999); }, {"1999"}, {"1999"});
        put(f, [](dj::track_snapshot& sn) { sn.year = 1999; });
        F.push_back(f);
    }
    {
        Field f;
        f.name = "beatgrid";
        f.facts = {"beatgrid"};
        std::vector<dj::beatgrid_marker> g2 = {{0, 1000.5}, {8, 89200.5}}, g3 = {{-4, 10.0}, {0, 44110.0}, {64, 749710.0}};
        add(f, "empty", [](Tr& t) { t.set_beatgrid({}); }, {"[]"}, {"[]"});
        put(f, [](dj::track_snapshot& sn) { sn.beatgrid = {}; });
        add(f, "two markers", [g2](Tr& t) { t.set_beatgrid(g2); }, {grid_text(g2)}, {grid_text(g2)});
        put(f, [g2](dj::track_snapshot& sn) { sn.beatgrid = g2; });
        add(f, "three markers", [g3](Tr& t) { t.set_beatgrid(g3); }, {grid_text(g3)}, {grid_text(g3)});
        put(f, [g3](dj::track_snapshot& sn) { sn.beatgrid = g3; });
        F.push_back(f);
    }
    {
        Field f;
        f.name = "hot_cues";
        f.facts = {"hot_cues"};
        for (int k = 0; k < 8; ++k) f.facts.push_back("hot_cue_at(" + std::to_string(k) + ")");
        using L = std::vector<std::optional<dj::hot_cue>>;
        L empty, ends(8), shortv(3), full(8);
        ends[0] = dj::hot_cue{"First", 100.5, dj::pad_color{1, 2, 3, 255}};
        ends[7] = dj::hot_cue{"Last", 700.25, dj::pad_color{255, 0, 128, 7}};
        shortv[2] = dj::hot_cue{"Third", 33.0, dj::pad_color{9, 8, 7, 6}};
        for (int k = 0; k < 8; ++k) full[k] = dj::hot_cue{"Q" + std::to_string(k), 10.0 * (k + 1), eng::standard_pad_colors::pads[k]};
        // offsets at and below zero: only -1 is a reserved empty-slot encoding, so these must stay present (or be refused)
        L low(8);
        low[1] = dj::hot_cue{"Neg", -2.5, dj::pad_color{1, 1, 1, 1}};
        low[3] = dj::hot_cue{"Zero", 0.0, dj::pad_color{2, 2, 2, 2}};
        low[5] = dj::hot_cue{"Half", -0.5, dj::pad_color{3, 3, 3, 3}};
        auto cue = [](const std::optional<dj::hot_cue>& c) { return cue_text(c); };
        for (auto& v : std::vector<std::pair<std::string, L>>{{"empty list", empty}, {"slots 0 and 7", ends}, {"three-slot list, slot 2", shortv}, {"all eight", full}, {"offsets <= 0", low}})
        {
            L val = v.second;
            add(f, v.first, [val](Tr& t) { t.set_hot_cues(val); }, {list8(val, cue)}, {list8(val, cue)}, v.first != "offsets <= 0");
            put(f, [val](dj::track_snapshot& sn) { sn.hot_cues = val; });
            for (int k = 0; k < 8; ++k) f.values.back().extra_expect.push_back({"hot_cue_at(" + std::to_string(k) + ")", cue(k < (int)val.size() ? val[k] : std::optional<dj::hot_cue>{})});
        }
        F.push_back(f);
    }
    {
        Field f;
        f.name = "loops";
        f.facts = {"loops"};
        for (int k = 0; k < 8; ++k) f.facts.push_back("loop_at(" + std::to_string(k) + ")");
        using L = std::vector<std::optional<dj::loop>>;
        L empty, ends(8), shortv(3), full(8);
        ends[0] = dj::loop{"First", 100.5, 200.5, dj::pad_color{1, 2, 3, 255}};
        ends[7] = dj::loop{"Last", 700.25, 800.0, dj::pad_color{255, 0, 128, 7}};
        shortv[2] = dj::loop{"Third", 33.0, 66.0, dj::pad_color{9, 8, 7, 6}};
        for (int k = 0; k < 8; ++k) full[k] = dj::loop{"L" + std::to_string(k), 10.0 * (k + 1), 10.0 * (k + 1) + 5, eng::standard_pad_colors::pads[7 - k]};
        L low(8);
        low[1] = dj::loop{"Neg", -2.5, 50.0, dj::pad_color{1, 1, 1, 1}};
        low[3] = dj::loop{"Zero", 0.0, 0.0, dj::pad_color{2, 2, 2, 2}};
        low[5] = dj::loop{"Both", -7.5, -0.5, dj::pad_color{3, 3, 3, 3}};
        auto lp = [](const std::optional<dj::loop>& c) { return loop_text(c); };
        for (auto& v : std::vector<std::pair<std::string, L>>{{"empty list", empty}, {"slots 0 and 7", ends}, {"three-slot list, slot 2", shortv}, {"all eight", full}, {"offsets <= 0", low}})
        {
            L val = v.second;
            add(f, v.first, [val](Tr& t) { t.set_loops(val); }, {list8(val, lp)}, {list8(val, lp)}, v.first != "offsets <= 0");
            put(f, [val](dj::track_snapshot& sn) { sn.loops = val; });
            for (int k = 0; k < 8; ++k) f.values.back().extra_expect.push_back({"loop_at(" + std::to_string(k) + ")", lp(k < (int)val.size() ? val[k] : std::optional<dj::loop>{})});
        }
        F.push_back(f);
    }
    {
        Field f;
        f.name = "waveform";
        f.facts = {"waveform"};
        // 1.x stores the high-resolution waveform as given, whatever its length; 2.x stores a 1024-point overview without
        // opacity resampled from it (not predicted), which is the identity for a 1024-entry waveform of full opacity when the
        // track has a usable sample count and rate, and empty otherwise
        using Wv = std::vector<dj::waveform_entry>;
        Wv four = {{{1, 2}, {3, 4}, {5, 6}}, {{7, 8}, {9, 10}, {11, 12}}, {{13, 14}, {15, 16}, {17, 18}}, {{250, 251}, {252, 253}, {254, 255}}};
        Wv plain;
        for (int i = 0; i < 1024; ++i) plain.push_back({{(uint8_t)(i % 251)}, {(uint8_t)((i * 7) % 253)}, {(uint8_t)((i * 13) % 255)}});
        add(f, "empty", [](Tr& t) { t.set_waveform({}); }, {waveform_text({})}, {waveform_text({})});
        put(f, [](dj::track_snapshot& sn) { sn.waveform = {}; });
        add(f, "four entries", [four](Tr& t) { t.set_waveform(four); }, {waveform_text(four)}, {});
        put(f, [four](dj::track_snapshot& sn) { sn.waveform = four; });
        add(f, "1024 entries of full opacity", [plain](Tr& t) { t.set_waveform(plain); }, {waveform_text(plain)}, {waveform_text(plain), waveform_text({})});
        put(f, [plain](dj::track_snapshot& sn) { sn.waveform = plain; });
        f.values[2].must_succeed = false;
        f.values[0].must_succeed = f.values[1].must_succeed = false;
        F.push_back(f);
    }
    {
        Field f;
        f.name = "file_bytes";
        f.facts = {"file_bytes"};
        f.has_setter = false;
        for (auto v : std::vector<std::optional<unsigned long long>>{std::nullopt, 0ull, 1048576ull, 1ull << 31, 1ull << 40})
        {
            FieldValue fv;
            fv.desc = v ? std::to_string(*v) : "absent";
            fv.put = [v](dj::track_snapshot& sn) { sn.file_bytes = v; };
            // only schemas from 1.15.0 on have the column; older ones read it back absent
            fv.allowed_v1 = v ? std::vector<std::string>{std::to_string(*v), NONE} : std::vector<std::string>{NONE};
            fv.allowed_v2 = v ? std::vector<std::string>{std::to_string(*v)} : std::vector<std::string>{NONE};
            if (v && *v == 0) fv.allowed_v2.push_back(NONE);
            f.values.push_back(fv);
        }
        F.push_back(f);
    }
    return F;
}
}  // namespace

const std::vector<Field>& fields()
{
    static const std::vector<Field> f = build();
    return f;
}
const Field* field_by_name(const std::string& n)
{
    for (auto& f : fields())
        if (f.name == n) return &f;
    return nullptr;
}
const std::vector<SlotValue>& hot_cue_slot_values()
{
    static const std::vector<SlotValue> v = {
        {"absent", std::nullopt, std::nullopt},
        {"cue", dj::hot_cue{"Slot cue", 4321.5, dj::pad_color{10, 20, 30, 255}}, std::nullopt},
        {"cue with 255-byte label", dj::hot_cue{std::string(255, 'L'), 1.0, dj::pad_color{0, 0, 0, 0}}, std::nullopt}};
    return v;
}
const std::vector<SlotValue>& loop_slot_values()
{
    static const std::vector<SlotValue> v = {
        {"absent", std::nullopt, std::nullopt},
        {"loop", std::nullopt, dj::loop{"Slot loop", 1111.5, 2222.5, dj::pad_color{40, 50, 60, 255}}},
        {"loop with 255-byte label", std::nullopt, dj::loop{std::string(255, 'M'), 1.0, 2.0, dj::pad_color{0, 0, 0, 0}}}};
    return v;
}
std::string slot_text(const SlotValue& v, bool loop) { return loop ? loop_text(v.loop) : cue_text(v.cue); }

namespace
{
struct RegisterTrackOps
{
    RegisterTrackOps()
    {
        World::register_op("set", [](World& w, const Op& op) {
            auto* f = field_by_name(op.s.at(0));
            if (!f) throw std::logic_error("harness: unknown field " + op.s.at(0));
            f->values.at((size_t)op.i.at(1)).set(w.tracks.at((size_t)op.i.at(0)));
        });
        World::register_op("set_slot", [](World& w, const Op& op) {
            auto& t = w.tracks.at((size_t)op.i.at(0));
            int idx = (int)op.i.at(2);
            // odd slots take the convenience overload without std::optional when there is a value
            if (op.s.at(0) == "hot_cue_at")
            {
                auto& v = hot_cue_slot_values().at((size_t)op.i.at(1)).cue;
                if (v && idx % 2) t.set_hot_cue_at(idx, *v);
                else t.set_hot_cue_at(idx, v);
            }
            else
            {
                auto& v = loop_slot_values().at((size_t)op.i.at(1)).loop;
                if (v && idx % 2) t.set_loop_at(idx, *v);
                else t.set_loop_at(idx, v);
            }
        });
    }
} register_track_ops;
}  // namespace
}  // namespace wm
