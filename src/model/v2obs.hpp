// Observation of the schema-2.x table API (track_table, playlist_table, playlist_entity_table, information_table):
// every column of track_row through get() and through its per-column getter, formatted identically so that
// "getter == row field" is a string comparison. Used by C16 (observers) and C18 (row round trip).
#pragma once
#include <cxxabi.h>

#include <sstream>

#include "world.hpp"

#define V2_TRACK_FIELDS(X)                                                                                                                        \
    X(play_order) X(length) X(bpm) X(year) X(path) X(filename) X(bitrate) X(bpm_analyzed) X(album_art_id) X(file_bytes) X(title) X(artist)       \
    X(album) X(genre) X(comment) X(label) X(composer) X(remixer) X(key) X(rating) X(album_art) X(time_last_played) X(is_played) X(file_type)     \
    X(is_analyzed) X(date_created) X(date_added) X(is_available) X(is_metadata_of_packed_track_changed)                                           \
    X(is_performance_data_of_packed_track_changed) X(played_indicator) X(is_metadata_imported) X(pdb_import_key) X(streaming_source) X(uri)      \
    X(is_beat_grid_locked) X(origin_database_uuid) X(origin_track_id) X(track_data) X(overview_waveform_data) X(beat_data) X(quick_cues)         \
    X(loops) X(third_party_source_id) X(streaming_flags) X(explicit_lyrics) X(active_on_load_loops) X(last_edit_time)

namespace v2o
{
namespace v2 = djinterop::engine::v2;
using tp = std::chrono::system_clock::time_point;

inline std::string fmt(int64_t v) { return std::to_string(v); }
inline std::string fmt(int32_t v) { return std::to_string(v); }
inline std::string fmt(bool v) { return v ? "true" : "false"; }
inline std::string fmt(double v)
{
    char b[40];
    snprintf(b, sizeof b, "%.17g", v);
    return b;
}
inline std::string fmt(const std::string& v) { return '"' + vx::hex(v) + '"'; }
inline std::string fmt(const tp& v) { return "t" + std::to_string(std::chrono::duration_cast<std::chrono::milliseconds>(v.time_since_epoch()).count()); }
template <class B>
inline std::string fmt_blob(const B& b)
{
    auto bytes = b.to_blob();
    std::string s(bytes.empty() ? "" : (const char*)bytes.data(), bytes.size());
    return "blob[" + std::to_string(bytes.size()) + "]#" + vx::hash128(s).substr(0, 16);
}
inline std::string fmt(const v2::track_data_blob& b) { return fmt_blob(b); }
inline std::string fmt(const v2::overview_waveform_data_blob& b) { return fmt_blob(b); }
inline std::string fmt(const v2::beat_data_blob& b) { return fmt_blob(b); }
inline std::string fmt(const v2::quick_cues_blob& b) { return fmt_blob(b); }
inline std::string fmt(const v2::loops_blob& b) { return fmt_blob(b); }
template <class T>
inline std::string fmt(const std::optional<T>& v)
{
    return v ? fmt(*v) : std::string("<none>");
}
inline std::string exname(const std::exception& e)
{
    int st = 0;
    char* d = abi::__cxa_demangle(typeid(e).name(), nullptr, nullptr, &st);
    std::string r = (st == 0 && d) ? d : typeid(e).name();
    free(d);
    return r;
}

// "row.<field> = text" for every column of a row
inline std::map<std::string, std::string> row_facts(const v2::track_row& r)
{
    std::map<std::string, std::string> m;
    m["id"] = fmt(r.id);
#define X(f) m[#f] = fmt(r.f);
    V2_TRACK_FIELDS(X)
#undef X
    return m;
}
// every per-column getter ("!throws <type>" when it throws)
inline std::map<std::string, std::string> getter_facts(v2::track_table& t, int64_t id)
{
    std::map<std::string, std::string> m;
#define X(f)                                                  \
    try { m[#f] = fmt(t.get_##f(id)); }                       \
    catch (const std::exception& e) { m[#f] = "!throws " + exname(e); }
    V2_TRACK_FIELDS(X)
#undef X
    return m;
}
inline std::string facts_text(const std::string& prefix, const std::map<std::string, std::string>& m)
{
    std::string s;
    for (auto& kv : m) s += prefix + kv.first + " = " + kv.second + "\n";
    return s;
}
template <class F>
inline std::string guarded_text(F&& f)
{
    try
    {
        std::ostringstream os;
        f(os);
        return os.str();
    }
    catch (const std::exception& e)
    {
        return "!throws " + exname(e);
    }
}
template <class C>
inline std::string ids_text(const C& c)
{
    std::string s = "[";
    for (auto& x : c) s += std::to_string(x) + ",";
    return s + "]";
}

// Every read operation of the four table classes, on existing and non-existing ids.
inline std::string observe_tables(wm::World& w)
{
    std::string out;
    auto tt = w.lib2->track();
    auto pl = w.lib2->playlist();
    auto pe = w.lib2->playlist_entity();
    auto info = w.lib2->information();
    out += "information = " + guarded_text([&](std::ostream& os) {
               auto r = info.get();
               os << r.id << "|" << (r.uuid == w.uuid ? "<uuid>" : r.uuid) << "|" << r.schema_version_major << "." << r.schema_version_minor << "." << r.schema_version_patch;
           }) + "\n";
    std::vector<int64_t> tids;
    out += "track.all_ids = " + guarded_text([&](std::ostream& os) { tids = tt.all_ids(); os << ids_text(tids); }) + "\n";
    tids.push_back(987654);  // a row that does not exist
    for (auto id : tids)
    {
        std::string p = "track[" + std::to_string(id) + "].";
        out += p + "exists = " + guarded_text([&](std::ostream& os) { os << tt.exists(id); }) + "\n";
        out += guarded_text([&](std::ostream& os) {
            auto r = tt.get(id);
            if (!r) os << p << "get = <none>\n";
            else os << facts_text(p + "row.", row_facts(*r));
        });
        out += facts_text(p + "get_", getter_facts(tt, id));
        out += p + "find_id_by_path = " + guarded_text([&](std::ostream& os) { auto r = tt.get(id); os << fmt(tt.find_id_by_path(r ? r->path : "no/such/path")); }) + "\n";
    }
    std::vector<int64_t> pids;
    out += "playlist.all_ids = " + guarded_text([&](std::ostream& os) { pids = pl.all_ids(); os << ids_text(pids); }) + "\n";
    out += "playlist.root_ids = " + guarded_text([&](std::ostream& os) { os << ids_text(pl.root_ids()); }) + "\n";
    pids.push_back(987654);
    for (auto id : pids)
    {
        std::string p = "playlist[" + std::to_string(id) + "].";
        out += p + "exists = " + guarded_text([&](std::ostream& os) { os << pl.exists(id); }) + "\n";
        out += p + "get = " + guarded_text([&](std::ostream& os) {
                   auto r = pl.get(id);
                   if (!r) os << "<none>";
                   else os << r->id << "|" << vx::hex(r->title) << "|" << r->parent_list_id << "|" << r->is_persisted << "|" << r->next_list_id << "|" << r->is_explicitly_exported;
               }) + "\n";
        out += p + "child_ids = " + guarded_text([&](std::ostream& os) { os << ids_text(pl.child_ids(id)); }) + "\n";
        out += p + "descendant_ids = " + guarded_text([&](std::ostream& os) { os << ids_text(pl.descendant_ids(id)); }) + "\n";
        out += p + "find = " + guarded_text([&](std::ostream& os) {
                   auto r = pl.get(id);
                   std::string title = r ? r->title : "no such title";
                   os << ids_text(pl.find_ids(title)) << " " << fmt(pl.find_id(r ? r->parent_list_id : 0, title)) << " " << fmt(pl.find_root_id(title));
               }) + "\n";
        out += p + "entities = " + guarded_text([&](std::ostream& os) {
                   for (auto& e : pe.get_for_list(id)) os << e.id << ":" << e.list_id << ":" << e.track_id << ":" << (e.database_uuid == w.uuid ? "<uuid>" : e.database_uuid) << ":" << e.next_entity_id << ":" << e.membership_reference << " ";
               }) + "\n";
        out += p + "track_ids = " + guarded_text([&](std::ostream& os) { os << ids_text(pe.track_ids(id)); }) + "\n";
        for (auto tid : tids)
            out += p + "entity_get(" + std::to_string(tid) + ") = " + guarded_text([&](std::ostream& os) { auto e = pe.get(id, tid); os << (e ? std::to_string(e->id) : "<none>"); }) + "\n";
    }
    // the change log (2.x before 2.20.3 only: the accessor itself refuses later schemas, which is an answer like any other)
    out += "change_log = " + guarded_text([&](std::ostream& os) {
               auto cl = w.lib2->change_log();
               for (auto& r : cl.all()) os << r.id << ":" << r.track_id << " ";
               auto l = cl.last();
               os << "| last " << (l ? std::to_string(l->id) + ":" + std::to_string(l->track_id) : std::string("<none>")) << " | after(1)";
               for (auto& r : cl.after(1)) os << " " << r.id << ":" << r.track_id;
           }) + "\n";
    return out;
}
}  // namespace v2o
