// Debug helper registered as pseudo-check "DBG": vx-san check DBG --only "<cmd>:<schema>:<history>"  (cmd = dump | observe | sql)
#include "world.hpp"
namespace
{
using namespace vx;
int run(const Options& o)
{
    auto p1 = o.only.find(':');
    auto p2 = o.only.find(':', p1 + 1);
    std::string cmd = o.only.substr(0, p1), sch = o.only.substr(p1 + 1, p2 - p1 - 1), hist = p2 == std::string::npos ? "" : o.only.substr(p2 + 1);
    auto s = wm::schema_by_name(sch);
    if (!s) { fprintf(stderr, "unknown schema\n"); return -1; }
    wm::World w(*s);
    seam::sql_ctl.log_sql = cmd == "sql";
    for (auto& op : wm::parse_history(hist))
    {
        seam::SqlArm arm;
        auto r = w.apply(op);
        printf("%s -> %s %s %s (execs=%ld writes=%ld)\n", op.str().c_str(), r.ok ? "ok" : "throws", r.ex_type.c_str(), r.what.c_str(), seam::sql_ctl.execs, seam::sql_ctl.writes);
        if (cmd == "sql") for (auto& q : seam::sql_ctl.log) printf("    SQL: %s\n", trunc(q, 200).c_str());
    }
    if (cmd == "f1test")
    {
        auto img = w.save();
        printf("dump0 %zu\n", w.dump().size());
        w.restore(img);
        {
            seam::SqlArm arm;
            seam::sql_ctl.fault_at = 0;
            seam::sql_ctl.fault_kind = getenv("VX_KIND") ? atoi(getenv("VX_KIND")) : 1;
            seam::sql_ctl.log_sql = true;
            auto r = w.apply(wm::Op{"create_track", {0}, {}});
            printf("faulted: ok=%d %s %s delivered=%ld\n", (int)r.ok, r.ex_type.c_str(), r.what.c_str(), seam::sql_ctl.faults_delivered);
            for (auto& q : seam::sql_ctl.log) printf("   SQL: %s\n", vx::trunc(q, 100).c_str());
            printf("   errmsg: %s autocommit=%d\n", sqlite3_errmsg(w.handle), sqlite3_get_autocommit(w.handle));
        }
        try { printf("dump1 %zu\n", w.dump().size()); } catch (const std::exception& e) { printf("dump1 failed: %s\n", e.what()); }
        try { printf("dump2 %zu\n", w.dump().size()); } catch (const std::exception& e) { printf("dump2 failed: %s\n", e.what()); }
    }
    if (cmd == "dump") printf("%s", w.dump().c_str());
    if (cmd == "observe") printf("%s", wm::observe(w).c_str());
    return 0;
}
Registrar reg({"DBG", "san", "san", run});
}  // namespace
