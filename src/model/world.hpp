// World: one real libdjinterop library (in memory or on disk) driven by named operations, with the captured SQLite handle
// for canonical dumps, snapshot/restore and raw (independent) reads.
#pragma once
#include <sqlite3.h>

#include <functional>
#include <map>
#include <optional>
#include <string>
#include <vector>

#include <djinterop/djinterop.hpp>
#include <djinterop/engine/v2/engine_library.hpp>

#include "common/core.hpp"
#include "common/seams.hpp"

namespace wm
{
namespace dj = djinterop;
namespace eng = djinterop::engine;
using vx::Json;

const std::vector<eng::engine_schema>& all_schemas();  // the 18 supported ones
bool is_v2(eng::engine_schema s);
std::string schema_name(eng::engine_schema s);          // "1.6.0", "1.18.0-os", ...
std::optional<eng::engine_schema> schema_by_name(const std::string& n);

// An operation on a world. Entities are named by creation order (index into World::tracks / World::crates), -1 = none.
struct Op
{
    std::string f;
    std::vector<long long> i;
    std::vector<std::string> s;
    std::string str() const;  // f(i0,i1|s0|s1)
    static Op parse(const std::string& text);
};
std::string history_str(const std::vector<Op>& h);
std::vector<Op> parse_history(const std::string& text);

struct Outcome
{
    bool ok = true;        // the call returned
    bool std_ex = false;   // it threw something derived from std::exception
    std::string ex_type;   // demangled dynamic type of the exception
    std::string what;
    bool horizon = false;  // the SQLite VM-step horizon fired during the call
};

struct Image  // serialized database content (one blob per attached schema)
{
    std::vector<std::pair<std::string, std::string>> parts;
    size_t n_tracks = 0, n_crates = 0;
};

class World
{
public:
    // in-memory library
    explicit World(eng::engine_schema schema);
    // on-disk library: create (mode 0) or load (mode 1) in `dir`
    World(eng::engine_schema schema, const std::string& dir, int mode);
    /// adopts a database obtained by the caller through some other public path (handle = its captured connection)
    World(eng::engine_schema schema, dj::database adopted, sqlite3* h);
    ~World();
    World(const World&) = delete;

    eng::engine_schema schema;
    bool v2;
    std::shared_ptr<eng::v2::engine_library> lib2;  // table API access (in-memory 2.x worlds only)
    dj::database db;
    sqlite3* handle = nullptr;
    std::string uuid;
    eng::engine_schema loaded_schema{};  // what load_database reported (mode 1 only)
    std::string directory;
    std::vector<dj::track> tracks;  // by creation order; removed ones stay (stale handles)
    std::vector<dj::crate> crates;

    // Applies op through the public API. Custom operation families are added with register_op().
    Outcome apply(const Op& op);
    // Runs fn, classifying whatever it throws.
    Outcome guarded(const std::function<void()>& fn);

    std::string dump() const;  // canonical raw dump of every table of every attached schema (masked)
    Image save() const;
    void restore(const Image& img);  // content back to img; handles created after the image are dropped
    long long total_changes() const;
    // raw SQL helpers on the captured handle (independent of the library's accessors)
    std::vector<std::vector<std::string>> query(const std::string& sql) const;  // values as text ("<null>" for NULL, hex for blobs prefixed x')
    void exec(const std::string& sql);

    using OpFn = std::function<void(World&, const Op&)>;
    static void register_op(const std::string& name, OpFn fn);
};

// Snapshots used by the generic "create_track" / "update" operations: kind 0 = minimal, 1 = metadata only, 2 = fully analysed,
// 3 = fully analysed with all eight cue and loop slots used. `n` makes the relative path (and title) unique.
dj::track_snapshot example_snapshot(int kind, int n);

// Full observation of a world through the public API only, as canonical text (one line per fact).
// Handles listed in tracks/crates are observed (stale ones through is_valid()/id() only).
std::string observe(World& w, bool include_track_fields = true, bool include_handles = true);
std::string observe_track(const dj::track& t, bool even_if_invalid = false);
std::string waveform_text(const std::vector<dj::waveform_entry>& w);  // the text of the "waveform" fact
std::string snapshot_str(const dj::track_snapshot& s);  // one "snapshot.<field> = <text>" line per field
// parse "name = value" lines into a map (name without the "track#<id>." prefix when strip_prefix is given)
std::map<std::string, std::string> facts_of(const std::string& observation, const std::string& strip_prefix = "");
}  // namespace wm
