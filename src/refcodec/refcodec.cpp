#include "refcodec.hpp"

#include <zlib.h>

namespace ref
{
namespace
{
struct W
{
    Bytes out;
    Layout* lay;
    explicit W(Layout* l) : lay(l) {}
    void note(const std::string& name, size_t size, char kind, bool be)
    {
        if (lay) lay->push_back(FieldPos{name, out.size(), size, kind, be});
    }
    void u8(const std::string& n, uint8_t v, char kind = 'd')
    {
        note(n, 1, kind, true);
        out.push_back((char)v);
    }
    void be(const std::string& n, uint64_t v, int width, char kind = 'd')
    {
        note(n, width, kind, true);
        for (int i = width - 1; i >= 0; --i) out.push_back((char)((v >> (8 * i)) & 0xff));
    }
    void le(const std::string& n, uint64_t v, int width, char kind = 'd')
    {
        note(n, width, kind, false);
        for (int i = 0; i < width; ++i) out.push_back((char)((v >> (8 * i)) & 0xff));
    }
    void raw(const std::string& n, const Bytes& b)
    {
        note(n, b.size(), 'd', true);
        out += b;
    }
};
struct R
{
    const unsigned char* p;
    size_t n, pos = 0;
    bool ok = true;
    explicit R(const Bytes& b) : p((const unsigned char*)b.data()), n(b.size()) {}
    size_t left() const { return n - pos; }
    uint64_t be(int width)
    {
        if (left() < (size_t)width) { ok = false; pos = n; return 0; }
        uint64_t v = 0;
        for (int i = 0; i < width; ++i) v = (v << 8) | p[pos + i];
        pos += width;
        return v;
    }
    uint64_t le(int width)
    {
        if (left() < (size_t)width) { ok = false; pos = n; return 0; }
        uint64_t v = 0;
        for (int i = width - 1; i >= 0; --i) v = (v << 8) | p[pos + i];
        pos += width;
        return v;
    }
    Bytes raw(size_t k)
    {
        if (left() < k) { ok = false; pos = n; return {}; }
        Bytes b((const char*)p + pos, k);
        pos += k;
        return b;
    }
    Bytes rest() { return raw(left()); }
};
bool fail(std::string* why, const char* m)
{
    if (why) *why = m;
    return false;
}
void enc_grid(W& w, const std::string& pfx, const std::vector<Marker>& g)
{
    w.be(pfx + ".count", (uint64_t)g.size(), 8, 'c');
    for (size_t i = 0; i < g.size(); ++i)
    {
        std::string p = pfx + "[" + std::to_string(i) + "]";
        w.le(p + ".offset", bits(g[i].offset), 8);
        w.le(p + ".beat_number", (uint64_t)g[i].beat_number, 8);
        w.le(p + ".number_of_beats", (uint32_t)g[i].number_of_beats, 4);
        w.le(p + ".unknown", (uint32_t)g[i].unknown, 4);
    }
}
bool dec_grid(R& r, std::vector<Marker>& g)
{
    int64_t n = (int64_t)r.be(8);
    if (!r.ok || n < 0 || (uint64_t)n > r.left() / 24) return false;
    g.resize((size_t)n);
    for (auto& m : g)
    {
        m.offset = from_bits(r.le(8));
        m.beat_number = (int64_t)r.le(8);
        m.number_of_beats = (int32_t)(uint32_t)r.le(4);
        m.unknown = (int32_t)(uint32_t)r.le(4);
    }
    return r.ok;
}
}  // namespace

Bytes encode(const BeatData& v, Layout* lay)
{
    W w(lay);
    w.be("sample_rate", bits(v.sample_rate), 8);
    w.be("samples", bits(v.samples), 8);
    w.u8("is_set", v.is_set);
    enc_grid(w, "default", v.def);
    enc_grid(w, "adjusted", v.adj);
    w.raw("extra", v.extra);
    return w.out;
}
bool decode(const Bytes& b, BeatData& v, std::string* why)
{
    R r(b);
    v.sample_rate = from_bits(r.be(8));
    v.samples = from_bits(r.be(8));
    v.is_set = (uint8_t)r.be(1);
    if (!r.ok) return fail(why, "short header");
    if (!dec_grid(r, v.def)) return fail(why, "default grid");
    if (!dec_grid(r, v.adj)) return fail(why, "adjusted grid");
    v.extra = r.rest();
    return true;
}

Bytes encode(const QuickCues& v, Layout* lay)
{
    W w(lay);
    w.be("count", (uint64_t)v.cues.size(), 8, 'c');
    for (size_t i = 0; i < v.cues.size(); ++i)
    {
        auto& c = v.cues[i];
        std::string p = "cue[" + std::to_string(i) + "]";
        w.u8(p + ".label_len", (uint8_t)c.label.size(), 'c');
        w.raw(p + ".label", c.label);
        w.be(p + ".offset", bits(c.offset), 8);
        w.u8(p + ".a", c.a);
        w.u8(p + ".r", c.r);
        w.u8(p + ".g", c.g);
        w.u8(p + ".b", c.b);
    }
    w.be("adjusted_main", bits(v.adjusted_main), 8);
    w.u8("is_adjusted", v.is_adjusted);
    w.be("default_main", bits(v.default_main), 8);
    w.raw("extra", v.extra);
    return w.out;
}
bool decode(const Bytes& b, QuickCues& v, std::string* why)
{
    R r(b);
    int64_t n = (int64_t)r.be(8);
    if (!r.ok || n < 0 || (uint64_t)n > r.left() / 13) return fail(why, "count");
    v.cues.clear();
    for (int64_t i = 0; i < n; ++i)
    {
        Cue c;
        size_t len = (size_t)r.be(1);
        c.label = r.raw(len);
        c.offset = from_bits(r.be(8));
        c.a = (uint8_t)r.be(1);
        c.r = (uint8_t)r.be(1);
        c.g = (uint8_t)r.be(1);
        c.b = (uint8_t)r.be(1);
        if (!r.ok) return fail(why, "cue truncated");
        v.cues.push_back(c);
    }
    v.adjusted_main = from_bits(r.be(8));
    v.is_adjusted = (uint8_t)r.be(1);
    v.default_main = from_bits(r.be(8));
    if (!r.ok) return fail(why, "trailer truncated");
    v.extra = r.rest();
    return true;
}

Bytes encode(const Loops& v, Layout* lay)
{
    W w(lay);
    w.le("count", (uint64_t)v.loops.size(), 8, 'c');
    for (size_t i = 0; i < v.loops.size(); ++i)
    {
        auto& l = v.loops[i];
        std::string p = "loop[" + std::to_string(i) + "]";
        w.u8(p + ".label_len", (uint8_t)l.label.size(), 'c');
        w.raw(p + ".label", l.label);
        w.le(p + ".start", bits(l.start), 8);
        w.le(p + ".end", bits(l.end), 8);
        w.u8(p + ".start_set", l.start_set);
        w.u8(p + ".end_set", l.end_set);
        w.u8(p + ".a", l.a);
        w.u8(p + ".r", l.r);
        w.u8(p + ".g", l.g);
        w.u8(p + ".b", l.b);
    }
    w.raw("extra", v.extra);
    return w.out;
}
bool decode(const Bytes& b, Loops& v, std::string* why)
{
    R r(b);
    int64_t n = (int64_t)r.le(8);
    if (!r.ok || n < 0 || (uint64_t)n > r.left() / 23) return fail(why, "count");
    v.loops.clear();
    for (int64_t i = 0; i < n; ++i)
    {
        Loop l;
        size_t len = (size_t)r.be(1);
        l.label = r.raw(len);
        l.start = from_bits(r.le(8));
        l.end = from_bits(r.le(8));
        l.start_set = (uint8_t)r.be(1);
        l.end_set = (uint8_t)r.be(1);
        l.a = (uint8_t)r.be(1);
        l.r = (uint8_t)r.be(1);
        l.g = (uint8_t)r.be(1);
        l.b = (uint8_t)r.be(1);
        if (!r.ok) return fail(why, "loop truncated");
        v.loops.push_back(l);
    }
    v.extra = r.rest();
    return true;
}

template <size_t K, class T>
static Bytes enc_wave(const T& v, Layout* lay)
{
    W w(lay);
    w.be("count1", (uint64_t)v.points.size(), 8, 'c');
    w.be("count2", (uint64_t)v.points.size(), 8, 'c');
    w.be("samples_per_point", bits(v.samples_per_point), 8);
    w.note("points", v.points.size() * K, 'd', true);
    for (auto& p : v.points)
        for (size_t k = 0; k < K; ++k) w.out.push_back((char)p[k]);
    w.note("maximum", K, 'd', true);
    for (size_t k = 0; k < K; ++k) w.out.push_back((char)v.maximum[k]);
    w.raw("extra", v.extra);
    return w.out;
}
template <size_t K, class T>
static bool dec_wave(const Bytes& b, T& v, std::string* why)
{
    R r(b);
    int64_t n1 = (int64_t)r.be(8), n2 = (int64_t)r.be(8);
    v.samples_per_point = from_bits(r.be(8));
    if (!r.ok) return fail(why, "short header");
    if (n1 != n2) return fail(why, "conflicting counts");
    if (n1 < 0 || r.left() < K || (uint64_t)n1 > (r.left() - K) / K) return fail(why, "count");
    v.points.resize((size_t)n1);
    for (auto& p : v.points)
        for (size_t k = 0; k < K; ++k) p[k] = (uint8_t)r.be(1);
    for (size_t k = 0; k < K; ++k) v.maximum[k] = (uint8_t)r.be(1);
    v.extra = r.rest();
    return r.ok;
}
Bytes encode(const Overview& v, Layout* lay) { return enc_wave<3>(v, lay); }
Bytes encode(const HighRes& v, Layout* lay) { return enc_wave<6>(v, lay); }
bool decode(const Bytes& b, Overview& v, std::string* why) { return dec_wave<3>(b, v, why); }
bool decode(const Bytes& b, HighRes& v, std::string* why) { return dec_wave<6>(b, v, why); }

Bytes encode(const TrackData2& v, Layout* lay)
{
    W w(lay);
    w.be("sample_rate", bits(v.sample_rate), 8);
    w.be("samples", (uint64_t)v.samples, 8);
    w.be("key", (uint32_t)v.key, 4);
    w.be("loud_low", bits(v.loud_low), 8);
    w.be("loud_mid", bits(v.loud_mid), 8);
    w.be("loud_high", bits(v.loud_high), 8);
    w.raw("extra", v.extra);
    return w.out;
}
bool decode(const Bytes& b, TrackData2& v, std::string* why)
{
    R r(b);
    v.sample_rate = from_bits(r.be(8));
    v.samples = (int64_t)r.be(8);
    v.key = (int32_t)(uint32_t)r.be(4);
    v.loud_low = from_bits(r.be(8));
    v.loud_mid = from_bits(r.be(8));
    v.loud_high = from_bits(r.be(8));
    if (!r.ok) return fail(why, "short");
    v.extra = r.rest();
    return true;
}
Bytes encode(const TrackData1& v, Layout* lay)
{
    W w(lay);
    w.be("sample_rate", bits(v.sample_rate), 8);
    w.be("samples", (uint64_t)v.samples, 8);
    w.be("loudness", bits(v.loudness), 8);
    w.be("key", (uint32_t)v.key, 4);
    w.raw("extra", v.extra);
    return w.out;
}
bool decode(const Bytes& b, TrackData1& v, std::string* why)
{
    R r(b);
    v.sample_rate = from_bits(r.be(8));
    v.samples = (int64_t)r.be(8);
    v.loudness = from_bits(r.be(8));
    v.key = (int32_t)(uint32_t)r.be(4);
    if (!r.ok) return fail(why, "short");
    v.extra = r.rest();
    return true;
}

Bytes deflate_only(const Bytes& payload, int level)
{
    uLongf cap = compressBound((uLong)payload.size());
    Bytes z(cap, '\0');
    int rc = compress2((Bytef*)&z[0], &cap, (const Bytef*)payload.data(), (uLong)payload.size(), level);
    if (rc != Z_OK) return {};
    z.resize(cap);
    return z;
}
Bytes frame_raw(int32_t header, const Bytes& zstream)
{
    Bytes out;
    uint32_t h = (uint32_t)header;
    out.push_back((char)(h >> 24));
    out.push_back((char)(h >> 16));
    out.push_back((char)(h >> 8));
    out.push_back((char)h);
    return out + zstream;
}
Bytes frame(const Bytes& payload, int level) { return frame_raw((int32_t)payload.size(), deflate_only(payload, level)); }
bool unframe(const Bytes& blob, Bytes& payload, std::string* why)
{
    payload.clear();
    if (blob.empty()) return true;
    if (blob.size() < 4) return fail(why, "short frame header");
    uint32_t n = ((uint32_t)(unsigned char)blob[0] << 24) | ((uint32_t)(unsigned char)blob[1] << 16) |
                 ((uint32_t)(unsigned char)blob[2] << 8) | (uint32_t)(unsigned char)blob[3];
    if (n == 0) return true;
    if (n > (1u << 30)) return fail(why, "absurd length");
    payload.resize(n);
    uLongf got = n;
    int rc = uncompress((Bytef*)&payload[0], &got, (const Bytef*)blob.data() + 4, (uLong)(blob.size() - 4));
    if (rc != Z_OK) { payload.clear(); return fail(why, "zlib error"); }
    if (got != n) { payload.clear(); return fail(why, "length mismatch"); }
    return true;
}

static bool same_markers(const std::vector<Marker>& a, const std::vector<Marker>& b)
{
    if (a.size() != b.size()) return false;
    for (size_t i = 0; i < a.size(); ++i)
        if (bits(a[i].offset) != bits(b[i].offset) || a[i].beat_number != b[i].beat_number ||
            a[i].number_of_beats != b[i].number_of_beats || a[i].unknown != b[i].unknown)
            return false;
    return true;
}
bool same(const BeatData& a, const BeatData& b)
{
    return bits(a.sample_rate) == bits(b.sample_rate) && bits(a.samples) == bits(b.samples) && a.is_set == b.is_set &&
           same_markers(a.def, b.def) && same_markers(a.adj, b.adj) && a.extra == b.extra;
}
bool same(const QuickCues& a, const QuickCues& b)
{
    if (a.cues.size() != b.cues.size()) return false;
    for (size_t i = 0; i < a.cues.size(); ++i)
    {
        auto &x = a.cues[i], &y = b.cues[i];
        if (x.label != y.label || bits(x.offset) != bits(y.offset) || x.a != y.a || x.r != y.r || x.g != y.g || x.b != y.b) return false;
    }
    return bits(a.adjusted_main) == bits(b.adjusted_main) && a.is_adjusted == b.is_adjusted &&
           bits(a.default_main) == bits(b.default_main) && a.extra == b.extra;
}
bool same(const Loops& a, const Loops& b)
{
    if (a.loops.size() != b.loops.size()) return false;
    for (size_t i = 0; i < a.loops.size(); ++i)
    {
        auto &x = a.loops[i], &y = b.loops[i];
        if (x.label != y.label || bits(x.start) != bits(y.start) || bits(x.end) != bits(y.end) || x.start_set != y.start_set ||
            x.end_set != y.end_set || x.a != y.a || x.r != y.r || x.g != y.g || x.b != y.b)
            return false;
    }
    return a.extra == b.extra;
}
bool same(const Overview& a, const Overview& b)
{
    return bits(a.samples_per_point) == bits(b.samples_per_point) && a.points == b.points && a.maximum == b.maximum && a.extra == b.extra;
}
bool same(const HighRes& a, const HighRes& b)
{
    return bits(a.samples_per_point) == bits(b.samples_per_point) && a.points == b.points && a.maximum == b.maximum && a.extra == b.extra;
}
bool same(const TrackData2& a, const TrackData2& b)
{
    return bits(a.sample_rate) == bits(b.sample_rate) && a.samples == b.samples && a.key == b.key && bits(a.loud_low) == bits(b.loud_low) &&
           bits(a.loud_mid) == bits(b.loud_mid) && bits(a.loud_high) == bits(b.loud_high) && a.extra == b.extra;
}
bool same(const TrackData1& a, const TrackData1& b)
{
    return bits(a.sample_rate) == bits(b.sample_rate) && a.samples == b.samples && bits(a.loudness) == bits(b.loudness) && a.key == b.key &&
           a.extra == b.extra;
}
}  // namespace ref
