// refcodec: an implementation of the Engine performance-data binary layouts that is independent of
// libdjinterop. Written from the format description (public headers + property C02): field order, widths,
// endianness, "4-byte big-endian uncompressed length + zlib stream" framing, loops uncompressed.
// Shares no code with the library; uses zlib's one-shot compress2()/uncompress() rather than a streaming loop.
#pragma once
#include <array>
#include <cstdint>
#include <cstring>
#include <string>
#include <vector>

namespace ref
{
using Bytes = std::string;

// Where a field sits inside an encoded payload (used by C04 for frame conditions and by C05 to patch counts).
struct FieldPos
{
    std::string name;  // e.g. "cue[3].label_len", "default.count"
    size_t off, size;
    char kind;  // 'c' count/length field, 'd' data
    bool big_endian;
};
using Layout = std::vector<FieldPos>;

struct Marker
{
    double offset = 0;
    int64_t beat_number = 0;
    int32_t number_of_beats = 0;
    int32_t unknown = 0;
};
struct BeatData
{
    double sample_rate = 0, samples = 0;
    uint8_t is_set = 0;
    std::vector<Marker> def, adj;
    Bytes extra;
};
struct Cue
{
    Bytes label;
    double offset = -1;
    uint8_t a = 0, r = 0, g = 0, b = 0;
};
struct QuickCues
{
    std::vector<Cue> cues;
    double adjusted_main = 0;
    uint8_t is_adjusted = 0;
    double default_main = 0;
    Bytes extra;
};
struct Loop
{
    Bytes label;
    double start = -1, end = -1;
    uint8_t start_set = 0, end_set = 0, a = 0, r = 0, g = 0, b = 0;
};
struct Loops
{
    std::vector<Loop> loops;
    Bytes extra;
};
struct Overview  // 3 bytes per point
{
    double samples_per_point = 0;
    std::vector<std::array<uint8_t, 3>> points;
    std::array<uint8_t, 3> maximum{{0, 0, 0}};
    Bytes extra;
};
struct HighRes  // 6 bytes per point: low, mid, high values then low, mid, high opacities
{
    double samples_per_point = 0;
    std::vector<std::array<uint8_t, 6>> points;
    std::array<uint8_t, 6> maximum{{0, 0, 0, 0, 0, 0}};
    Bytes extra;
};
struct TrackData2  // schema 2.x: rate, samples, key, three loudness values
{
    double sample_rate = 0;
    int64_t samples = 0;
    int32_t key = 0;
    double loud_low = 0, loud_mid = 0, loud_high = 0;
    Bytes extra;
};
struct TrackData1  // schema 1.x: rate, samples, loudness, key (28 bytes)
{
    double sample_rate = 0;
    int64_t samples = 0;
    double loudness = 0;
    int32_t key = 0;
    Bytes extra;
};

// Payload (uncompressed) encoders. `lay`, when given, receives the position of every field.
Bytes encode(const BeatData&, Layout* lay = nullptr);
Bytes encode(const QuickCues&, Layout* lay = nullptr);
Bytes encode(const Loops&, Layout* lay = nullptr);
Bytes encode(const Overview&, Layout* lay = nullptr);
Bytes encode(const HighRes&, Layout* lay = nullptr);
Bytes encode(const TrackData2&, Layout* lay = nullptr);
Bytes encode(const TrackData1&, Layout* lay = nullptr);

// Payload decoders; return false (with a reason) when the payload is malformed. Trailing bytes go to `extra`.
bool decode(const Bytes&, BeatData&, std::string* why = nullptr);
bool decode(const Bytes&, QuickCues&, std::string* why = nullptr);
bool decode(const Bytes&, Loops&, std::string* why = nullptr);
bool decode(const Bytes&, Overview&, std::string* why = nullptr);
bool decode(const Bytes&, HighRes&, std::string* why = nullptr);
bool decode(const Bytes&, TrackData2&, std::string* why = nullptr);
bool decode(const Bytes&, TrackData1&, std::string* why = nullptr);

// Framing: 4-byte big-endian length of the payload, then a zlib stream. An empty payload may be framed as the
// empty string (what Engine and the library do for "no data") — frame() always emits the header.
Bytes frame(const Bytes& payload, int level = -1);
// Returns false if the frame is malformed (short header, bad stream, length mismatch). Empty input -> empty payload.
bool unframe(const Bytes& blob, Bytes& payload, std::string* why = nullptr);
// Frame with an arbitrary length header (for C05).
Bytes frame_raw(int32_t header, const Bytes& zstream);
Bytes deflate_only(const Bytes& payload, int level = -1);

// Bit-exact comparison helpers
inline uint64_t bits(double d)
{
    uint64_t u;
    memcpy(&u, &d, 8);
    return u;
}
inline double from_bits(uint64_t u)
{
    double d;
    memcpy(&d, &u, 8);
    return d;
}
bool same(const BeatData&, const BeatData&);
bool same(const QuickCues&, const QuickCues&);
bool same(const Loops&, const Loops&);
bool same(const Overview&, const Overview&);
bool same(const HighRes&, const HighRes&);
bool same(const TrackData2&, const TrackData2&);
bool same(const TrackData1&, const TrackData1&);
}  // namespace ref
