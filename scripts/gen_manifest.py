#!/usr/bin/env python3
"""Regenerates /verif/MANIFEST.json from the table below. Properties without an
entry in CHECKS are listed under not_applicable with the reason given in NA."""
import json, os, sys
ROOT = os.path.dirname(os.path.dirname(os.path.abspath(__file__)))
ALL = ["C%02d" % i for i in range(1, 21)]

# id -> (category, technique, text, note, design_ref)
CHECKS = {}
NA = {}

def chk(pid, category, technique, text, note, ref):
    CHECKS[pid] = dict(category=category, technique=technique, text=text, note=note, ref=ref)

exec(open(os.path.join(ROOT, "scripts", "manifest_table.py")).read())

m = {
 "version": 1,
 "setup_cmd": "make -C /verif build",
 "hooks": {
  "guard": "DJINTEROP_VERIF",
  "enable": "no source hooks are needed: the harness reaches everything by link-time interposition (sqlite3_step, sqlite3_open_v2, inflate) and by including internal headers; -DDJINTEROP_VERIF is passed to every instrumented build but nothing under /repo tests it",
  "baseline_off_cmd": "(test -f /repo/_build/build.ninja || cmake -G Ninja -S /repo -B /repo/_build -DCMAKE_BUILD_TYPE=RelWithDebInfo -DCMAKE_CXX_FLAGS=-Wno-error) && cmake --build /repo/_build -j16 && ctest --test-dir /repo/_build -j8 --timeout 900",
  "source_commits": [],
  "add_only": True
 },
 "engines": [
  {"name": "vx", "path": "/verif/bin/vx", "serves_properties": sorted(CHECKS),
   "kind_free_text": "hand-written bounded-exhaustive explorer in C++ linked against the real library: explicit-state BFS over API operation histories in lock-step with in-language reference models, exhaustive input-shape enumeration for codecs/pure functions, exhaustive SQL/zlib fault-position enumeration through interposed sqlite3_step/inflate; forked workers with sanitizer/crash attribution"}
 ],
 "checks": [],
 "not_applicable": [],
 "notes": "All checks: `bin/vx check <id> --tier quick|thorough` rebuilds libdjinterop from /repo's working tree (two instrumented variants, out of tree under /verif/build) and the harness, runs the bounded exhaustive exploration, rewrites evidence/<id>.json, prints VIOLATION/KNOWN-FINDING lines. Known findings live in /verif/known_findings.txt."
}
for pid in ALL:
    if pid in CHECKS:
        c = CHECKS[pid]
        m["checks"].append({
            "property_id": pid,
            "quick_cmd": "bin/vx check %s --tier quick" % pid,
            "thorough_cmd": "bin/vx check %s --tier thorough" % pid,
            "evidence_file": "/verif/evidence/%s.json" % pid,
            "replay_cmd_template": "bin/vx replay {path}",
            "engine": "vx",
            "level_claimed": {"category": c["category"], "text": c["text"], "design_ref": c["ref"]},
            "level_note": c["note"],
            "technique": c["technique"],
        })
    else:
        m["not_applicable"].append({"property_id": pid, "reason": NA.get(pid, "check not yet registered (implementation in progress; design in DESIGN.md section 5)")})
json.dump(m, open(os.path.join(ROOT, "MANIFEST.json"), "w"), indent=1)
print("checks:", len(m["checks"]), "not_applicable:", len(m["not_applicable"]))
