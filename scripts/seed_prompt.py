#!/usr/bin/env python3
"""seed_prompt.py <PROP> [suffix] : creates the scratch worktree /tmp/seed/<PROP><suffix> and prints the sub-agent prompt
(property text only; nothing from /verif's checks)."""
import json, sys, os, subprocess
pid = sys.argv[1]; suf = sys.argv[2] if len(sys.argv) > 2 else ""
root = os.path.dirname(os.path.dirname(os.path.abspath(__file__)))
p = [json.loads(l) for l in open(root + "/properties.jsonl") if json.loads(l)["id"] == pid][0]
wt = "/tmp/seed/%s%s" % (pid, suf); out = "/tmp/seedout/%s%s" % (pid, suf)
os.makedirs("/tmp/seed", exist_ok=True); os.makedirs(out, exist_ok=True)
if not os.path.isdir(wt):
    subprocess.run(["git", "-C", "/repo", "worktree", "add", "--detach", wt, "HEAD"], check=True, stdout=subprocess.DEVNULL, stderr=subprocess.DEVNULL)
t = open(root + "/seeded/AGENT_PROMPT.tmpl").read()
for k, v in {"@WT@": wt, "@OUT@": out, "@ID@": pid, "@TITLE@": p["title"], "@STATEMENT@": p["statement"],
             "@QUANT@": p["quantifier"]["text"], "@FILES@": ", ".join(p["anchors"]["files"])}.items():
    t = t.replace(k, v)
focus = os.environ.get("SEED_FOCUS", "")
if focus:
    t = t.replace("TASK: produce", "ROUND FOCUS: " + focus + "\n\nTASK: produce", 1)
print(t)
