#!/bin/bash
# coverage.sh [checks...] : measurement only, not a deciding step. Builds a gcov variant of the library and the harness
# in a scratch build directory (outside /repo and /verif), runs the quick tier of the given checks (default: all) and prints,
# per library source the properties are anchored in, the lines no check executed. Output: $OUT (default /var/tmp/vxcov/report.txt).
set -u
cd "$(dirname "$0")/.." || exit 2
B=${COVBUILD:-/var/tmp/vxcov}
mkdir -p "$B"
make -s BUILD="$B" -j16 cov > "$B/build.log" 2>&1 || { tail -30 "$B/build.log"; exit 2; }
find "$B" -name '*.gcda' -delete
for c in ${@:-C01 C02 C03 C04 C05 C06 C07 C08 C09 C10 C11 C12 C13 C14 C15 C16 C17 C18 C19 C20}; do
  VERIF_ROOT=$PWD VERIF_NO_EVIDENCE=1 timeout 3000 "$B/vx-cov" check $c --tier quick > "$B/run-$c.log" 2>&1
  echo "$c exit=$? $(grep -E "^$c quick" "$B/run-$c.log" | cut -c1-160)"
done
OUT=${OUT:-$B/report.txt}
( cd "$B/lib-cov" && find . -name '*.gcda' | while read f; do
    d=$(dirname "$f"); gcov -p -o "$d" "$f" > /dev/null 2>&1; done
  for g in *src#djinterop#*.gcov; do
    [ -f "$g" ] || continue
    n=$(grep -c '^ *#####' "$g"); t=$(grep -cE '^ *([0-9]+\*?|#####):' "$g")
    echo "== $(echo "$g" | sed 's/#/\//g; s/.gcov$//; s/^.*src\/djinterop/src\/djinterop/') uncovered=$n of $t"
    grep -n '^ *#####' "$g" | sed 's/^[0-9]*: *#####: *//' | cut -c1-150
  done ) > "$OUT"
echo "report: $OUT"
