#!/bin/bash
# coverage.sh [checks...] : measurement only, not a deciding step. Builds a gcov variant of the library and the harness
# in a scratch build directory (outside /repo and /verif), runs the quick tier of the given checks (default: all) and prints,
# per library source the properties are anchored in, the lines no check executed. Output: $OUT (default /var/tmp/vxcov/report.txt).
set -u
cd "$(dirname "$0")/.." || exit 2
B=${COVBUILD:-/var/tmp/vxcov}
mkdir -p "$B"
make -s BUILD="$B" -j16 cov > "$B/build.log" 2>&1 || { tail -30 "$B/build.log"; exit 2; }
find "$B" -name '*.gcda' -delete
for c in ${@:-C01 C02 C03 C04 C05 C06 C07 C08 C09 C10 C11 C12 C13 C14 C15 C16 C17 C18 C19 C20}; do
  VERIF_ROOT=$PWD VERIF_NO_EVIDENCE=1 timeout 3000 "$B/vx-cov" check $c --tier quick > "$B/run-$c.log" 2>&1
  echo "$c exit=$? $(grep -E "^$c quick" "$B/run-$c.log" | cut -c1-160)"
done
OUT=${OUT:-$B/report.txt}
# one .gcov per (translation unit, source) pair (-l), merged per source: a line counts as executed if any unit executed it
( cd "$B/lib-cov" && rm -f *.gcov && find . -name '*.gcda' | while read f; do
    d=$(dirname "$f"); gcov -l -p -o "$d" "$f" > /dev/null 2>&1; done
  python3 - <<'PY'
import glob, re, collections
src = collections.defaultdict(dict)   # source -> line -> (executed, text)
for g in glob.glob('*.gcov'):
    name = None
    for l in open(g, errors='replace'):
        m = re.match(r'^\s*([^:]+):\s*(\d+):(.*)$', l)
        if not m: continue
        cnt, ln, text = m.group(1).strip(), int(m.group(2)), m.group(3)
        if ln == 0:
            if text.startswith('Source:'): name = text[7:]
            continue
        if name is None or '/src/djinterop/' not in name or cnt == '-': continue
        key = name[name.index('/src/djinterop/') + 1:]
        hit = cnt not in ('#####', '=====')
        old = src[key].get(ln)
        src[key][ln] = (hit or (old[0] if old else False), text)
tu = tt = 0
for key in sorted(src):
    lines = src[key]; unc = [(ln, t) for ln, (h, t) in sorted(lines.items()) if not h]
    tu += len(unc); tt += len(lines)
    print("== %s uncovered=%d of %d" % (key, len(unc), len(lines)))
    for ln, t in unc: print("%d:%s" % (ln, t[:150]))
print("== TOTAL uncovered=%d of %d" % (tu, tt))
PY
) > "$OUT"
echo "report: $OUT"
