#!/bin/bash
# Runs the thorough tier of every check, one after the other (each uses all cores), against /repo's working tree.
# Every check has its own global deadline (3000 s): past it the check stops, reports exhaustive=false and exits 0.
cd "$(dirname "$0")/.." || exit 2
LOG=${1:-/var/tmp/vx-thorough.log}
: > "$LOG"
for c in ${CHECKS:-C12 C13 C19 C20 C05 C04 C03 C02 C17 C18 C08 C14 C15 C10 C16 C09 C07 C11 C06 C01}; do
  s=$(date +%s)
  out=$(timeout 4000 bin/vx check $c --tier thorough 2>&1); rc=$?
  e=$(date +%s)
  echo "=== $c exit=$rc wall=$((e-s))s" >> "$LOG"
  echo "$out" | grep -E "^(VIOLATION|KNOWN-FINDING|C[0-9]+ thorough)|  key=" | cut -c1-300 >> "$LOG"
done
echo "ALL DONE" >> "$LOG"
