#!/usr/bin/env python3
"""Prints the markdown table of seeded changes (seeded/*/meta.json) for DESIGN.md section 9.7."""
import json, glob, os, re
rows = []
def _nat(d):
    b = os.path.basename(d); m = re.match(r"(C\d+)-([ms])(\d+)", b)
    return (m.group(1), m.group(2), int(m.group(3))) if m else (b, "", 0)
for d in sorted(glob.glob(os.path.join(os.path.dirname(os.path.dirname(os.path.abspath(__file__))), "seeded", "C*-[ms]*")), key=_nat):
    m = json.load(open(d + "/meta.json"))
    notes = m.get("needs_to_manifest", "")
    title = ""
    for line in notes.splitlines():
        line = line.strip().lstrip("#").strip()
        if line:
            title = line
            break
    title = re.sub(r"^(C\d+\s*[/-]?\s*m\d+\s*[—:-]*\s*)", "", title)[:110]
    det = m.get("detected_by") or []
    runs = m.get("runs") or []
    status = m.get("status", "")
    rows.append((m["id"], title, ", ".join(det) if det else ("—" if not status else ""), status or ("caught" if det else ("not run" if not runs else "MISSED")), runs[-1] if runs else "", m.get("first_result", "")))
print("| seeded change | what it does | caught by (quick tier) | status | history |")
print("|---|---|---|---|---|")
for r in rows:
    print("| %s | %s | %s | %s | %s |" % (r[0], r[1].replace("|", "/"), r[2], r[3], r[5].replace("|", "/")))
