#!/bin/bash
# seedtest.sh <PROP>-<mK> [check ids...] : run quick checks against a kept seeded change.
# The change is applied to a scratch worktree of /repo's HEAD (never to /repo itself) which the checks are pointed at through
# REPO / BUILD / VERIF_REPO, so that other work in /verif and /repo is not disturbed. Serialised by a lock (shared build dir).
set -u
S="$1"; shift
D=/verif/seeded/$S
P=${S%%-*}
CHECKS="${*:-$P}"
WT=/var/tmp/vx-seedrun/wt; SB=/var/tmp/vx-seedrun/build
mkdir -p /var/tmp/vx-seedrun
exec 9>/var/tmp/vx-seedrun/lock; flock 9
HEAD=$(git -C /repo rev-parse HEAD)
if [ ! -d "$WT" ]; then git -C /repo worktree add --detach "$WT" "$HEAD" >/dev/null 2>&1 || exit 2; fi
git -C "$WT" reset -q --hard && git -C "$WT" checkout -q --detach "$HEAD" || exit 2
applied=0
for pf in "$D/patch.rebased.diff" "$D/patch.diff"; do
  [ -f "$pf" ] || continue
  git -C "$WT" reset -q --hard
  if git -C "$WT" apply "$pf" 2>/dev/null; then applied=1; break; fi
  # same change, shifted context (the tree has moved on through fix commits): let patch(1) place it with fuzz
  if (cd "$WT" && patch -p1 -F3 --no-backup-if-mismatch -s < "$pf" >/dev/null 2>&1); then applied=1; break; fi
done
[ $applied = 1 ] || { echo "SEEDTEST $S: patch does not apply to current HEAD"; echo "$(date -u +%FT%TZ) $S patch-does-not-apply" >> /verif/seeded/results.log; exit 2; }
res=""
for c in $CHECKS; do
  out=$(cd /verif && REPO="$WT" VERIF_REPO="$WT" BUILD="$SB" VERIF_NO_EVIDENCE=1 timeout 3000 bin/vx check $c --tier ${TIER:-quick} 2>&1); rc=$?
  nv=$(echo "$out" | grep -c '^VIOLATION')
  echo "--- $S under check $c: exit=$rc violations=$nv"
  echo "$out" | grep -A3 '^VIOLATION' | cut -c1-300 | head -16
  res="$res $c:exit=$rc:viol=$nv"
done
git -C "$WT" reset -q --hard
echo "SEEDTEST $S:$res"
echo "$(date -u +%FT%TZ) $S tier=${TIER:-quick} head=${HEAD:0:7}$res" >> /verif/seeded/results.log
python3 - "$S" "$res" <<'PY'
import json,sys
s,res=sys.argv[1],sys.argv[2]
p="/verif/seeded/%s/meta.json"%s
m=json.load(open(p))
det=[r.split(":")[0] for r in res.split() if "viol=0" not in r and "exit=1" in r]
m["detected_by"]=sorted(set((m.get("detected_by") or [])+det))
m.setdefault("runs",[]).append(res.strip())
json.dump(m,open(p,"w"),indent=1)
PY
