#!/bin/bash
# seedtest.sh <PROP>-<mK> [check ids...] : apply a kept seeded change to /repo, run quick checks, undo.
# Serialised with a lock because it edits /repo's working tree.
set -u
S="$1"; shift
D=/verif/seeded/$S
P=${S%%-*}
CHECKS="${*:-$P}"
exec 9>/tmp/seedtest.lock; flock 9
cd /repo && git diff --quiet || { echo "/repo has local modifications, refusing"; exit 2; }
git -C /repo apply "$D/patch.diff" || { echo "patch does not apply to current /repo"; exit 2; }
res=""
for c in $CHECKS; do
  out=$(cd /verif && VERIF_NO_EVIDENCE=1 timeout 3000 bin/vx check $c --tier ${TIER:-quick} 2>&1); rc=$?
  nv=$(echo "$out" | grep -c '^VIOLATION')
  echo "--- $S under check $c: exit=$rc violations=$nv"
  echo "$out" | grep -A3 '^VIOLATION' | head -24
  res="$res $c:exit=$rc:viol=$nv"
done
git -C /repo checkout -- .
echo "SEEDTEST $S:$res"
echo "$(date -u +%FT%TZ) $S tier=${TIER:-quick}$res" >> /verif/seeded/results.log
python3 - "$S" "$res" <<'PY'
import json,sys
s,res=sys.argv[1],sys.argv[2]
p="/verif/seeded/%s/meta.json"%s
m=json.load(open(p))
det=[r.split(":")[0] for r in res.split() if "viol=0" not in r and "exit=1" in r]
m["detected_by"]=sorted(set((m.get("detected_by") or [])+det))
m.setdefault("runs",[]).append(res.strip())
json.dump(m,open(p,"w"),indent=1)
PY
