#!/usr/bin/env python3
"""mutcampaign.py - mechanical first-order mutation campaign used to *evaluate the checks* (never to decide a property).

  gen    [--budget N]            enumerate candidate one-line mutants of the anchored library sources, pick a deterministic
                                 stratified subset (every k-th candidate per file) and write /var/tmp/vx-mut/plan.jsonl
  phase1 [--workers W]           for each planned mutant: apply to a scratch worktree of /repo's HEAD, build, run the
                                 repository's own suite; classify compile_fail / suite_killed / survivor
  phase2                         for each survivor: point the relevant quick checks at a scratch worktree carrying the mutant
                                 (stop at the first check that reports a violation); classify caught / missed
  report                         summary table

Nothing here touches /repo's working tree: all work happens in git worktrees under /var/tmp/vx-mut, removed by `clean`.
"""
import argparse, json, os, re, subprocess, sys, hashlib, shutil, concurrent.futures as cf

ROOT = "/var/tmp/vx-mut"
REPO = "/repo"
FILES = {
    # file (relative to repo) : checks, most specific first
    "src/djinterop/engine/encode_decode_utils.cpp": ["C02", "C03", "C05", "C04"],
    "src/djinterop/engine/encode_decode_utils.hpp": ["C02", "C03", "C05", "C04"],
    "src/djinterop/engine/v2/beat_data_blob.cpp": ["C02", "C03", "C04", "C05"],
    "src/djinterop/engine/v2/quick_cues_blob.cpp": ["C02", "C03", "C04", "C05"],
    "src/djinterop/engine/v2/loops_blob.cpp": ["C02", "C03", "C04", "C05"],
    "src/djinterop/engine/v2/overview_waveform_data_blob.cpp": ["C02", "C03", "C04", "C05"],
    "src/djinterop/engine/v2/track_data_blob.cpp": ["C02", "C03", "C04", "C05"],
    "src/djinterop/engine/v1/performance_data_format.cpp": ["C02", "C03", "C05", "C01"],
    "src/djinterop/engine/v2/track_impl.cpp": ["C06", "C01", "C02", "C04", "C15", "C14", "C08", "C16"],
    "src/djinterop/engine/v1/engine_track_impl.cpp": ["C06", "C01", "C02", "C15", "C14", "C08", "C16"],
    "src/djinterop/engine/v2/convert_track.hpp": ["C01", "C06"],
    "src/djinterop/engine/v2/convert_hot_cues.hpp": ["C01", "C06", "C15"],
    "src/djinterop/engine/v2/convert_loops.hpp": ["C01", "C06", "C15"],
    "src/djinterop/engine/v2/convert_beatgrid.hpp": ["C01", "C06", "C15"],
    "src/djinterop/engine/v2/convert_waveform.hpp": ["C01", "C06", "C15"],
    "src/djinterop/engine/v2/track_table.cpp": ["C18", "C01", "C06", "C16"],
    "src/djinterop/engine/v2/playlist_table.cpp": ["C18", "C09", "C07", "C11", "C14"],
    "src/djinterop/engine/v2/playlist_entity_table.cpp": ["C18", "C09", "C08", "C11", "C14"],
    "src/djinterop/engine/v2/information_table.cpp": ["C18", "C12", "C10"],
    "src/djinterop/engine/v2/change_log_table.cpp": ["C18", "C16"],
    "src/djinterop/engine/v2/crate_impl.cpp": ["C07", "C08", "C09", "C11", "C15", "C14"],
    "src/djinterop/engine/v2/database_impl.cpp": ["C07", "C08", "C09", "C11", "C15", "C14", "C17", "C16"],
    "src/djinterop/engine/v1/engine_crate_impl.cpp": ["C07", "C08", "C11", "C15", "C14"],
    "src/djinterop/engine/v1/engine_database_impl.cpp": ["C07", "C08", "C11", "C15", "C14", "C17"],
    "src/djinterop/engine/v1/engine_storage.cpp": ["C01", "C06", "C07", "C08", "C10", "C11"],
    "src/djinterop/engine/schema/schema.cpp": ["C13", "C12", "C10"],
    "src/djinterop/engine/engine_library_dir_utils.cpp": ["C13", "C10", "C12"],
    "src/djinterop/engine/schema/schema_validate_utils.hpp": ["C17", "C12"],
    "src/djinterop/engine/base_engine_library.cpp": ["C17", "C13", "C10"],
    "src/djinterop/engine/engine.cpp": ["C20", "C19", "C13", "C10"],
    "src/djinterop/engine/track_utils.hpp": ["C19", "C01"],
    "src/djinterop/util/chrono.cpp": ["C18", "C01"],
    "src/djinterop/util/filesystem.cpp": ["C13", "C10"],
    "src/djinterop/track.cpp": ["C15", "C06", "C01"],
    "src/djinterop/crate.cpp": ["C15", "C07", "C08", "C09"],
    "src/djinterop/database.cpp": ["C15", "C07", "C17", "C08", "C13"],
}

ROR = [(" <= ", " < "), (" < ", " <= "), (" >= ", " > "), (" > ", " >= "), (" == ", " != "), (" != ", " == ")]
LCR = [(" && ", " || "), (" || ", " && ")]


def candidates(path, text):
    out = []
    lines = text.split("\n")
    in_block_comment = False
    for i, l in enumerate(lines):
        s = l.strip()
        if in_block_comment:
            if "*/" in s:
                in_block_comment = False
            continue
        if s.startswith("/*"):
            if "*/" not in s:
                in_block_comment = True
            continue
        if not s or s.startswith("//") or s.startswith("#") or s.startswith("*"):
            continue
        if s.startswith("using ") or s.startswith("namespace ") or s.startswith("template"):
            continue
        code = l.split("//")[0]
        is_string_line = s.startswith('"') or s.startswith("<< \"") or s.startswith("\"")
        # ROR / LCR on control lines and returns
        if not is_string_line and re.search(r"\b(if|while|for|return|assert)\b|\?", code) and "<<" not in code and "template" not in code:
            for a, b in ROR + LCR:
                k = code.find(a)
                if k >= 0 and '"' not in code[:k]:
                    out.append((i, "ROR" if (a, b) in ROR else "LCR", l, l[:k] + b + l[k + len(a):]))
                    break
        # arithmetic off-by-one
        if not is_string_line and '"' not in code:
            m = re.search(r" ([+-]) 1\b(?!\.)", code)
            if m:
                out.append((i, "AOR1", l, l[: m.start()] + l[m.end():]))
            else:
                m = re.search(r"(?<![\w.\"'])([2-9]|[1-9][0-9]{1,3})\b(?![.\w\"'])", code)
                if m and not re.search(r"\b(case|schema_|REQUIRE|version)\b", code) and "[" not in code[: m.start()][-1:]:
                    v = int(m.group(1))
                    out.append((i, "CONST", l, l[: m.start(1)] + str(v + 1) + l[m.end(1):]))
        # statement deletion: a single-line call or assignment, not a declaration / return / control statement
        if re.match(r"^\s+[A-Za-z_][\w:.>\-\[\]()]*\s*(\(|=|\+=|-=|\+\+|--)", l) and s.endswith(";") and not re.match(
                r"^\s*(return|throw|auto|const|static|using|typedef|int|int64_t|int32_t|uint8_t|uint64_t|double|bool|std::|break|continue|case|default|else|if|for|while|delete)\b", l):
            if s.count("(") == s.count(")") and not s.startswith("}"):
                out.append((i, "SDL", l, re.match(r"^\s*", l).group(0) + ";"))
        # SQL text: swap two adjacent comma-separated identifiers inside a string literal (wrong-column slips)
        if is_string_line or ('"' in code and re.search(r"\b(SELECT|UPDATE|INSERT|WHERE|SET)\b", code)):
            m = re.search(r"\b([a-z][A-Za-z]+)( = \?)?, ([a-z][A-Za-z]+)( = \?)?(?=[, \"])", code)
            if m and m.group(1) != m.group(3) and (m.group(2) or "") == (m.group(4) or ""):
                new = code[: m.start()] + m.group(3) + (m.group(2) or "") + ", " + m.group(1) + (m.group(4) or "") + code[m.end():]
                out.append((i, "SQLSWAP", l, new + l[len(code):]))
    return out


def sh(cmd, cwd=None, timeout=1800, env=None):
    try:
        p = subprocess.run(cmd, shell=True, cwd=cwd, stdout=subprocess.PIPE, stderr=subprocess.STDOUT, timeout=timeout, env=env)
        return p.returncode, p.stdout.decode(errors="replace")
    except subprocess.TimeoutExpired as e:
        return 124, (e.stdout or b"").decode(errors="replace")


def head():
    return subprocess.check_output(["git", "-C", REPO, "rev-parse", "HEAD"]).decode().strip()


def cmd_gen(a):
    os.makedirs(ROOT, exist_ok=True)
    allc = []
    for f in FILES:
        p = os.path.join(REPO, f)
        if not os.path.exists(p):
            continue
        text = open(p).read()
        cs = candidates(f, text)
        for (i, op, before, after) in cs:
            if before != after:
                allc.append({"file": f, "line": i + 1, "op": op, "before": before, "after": after})
    total = len(allc)
    stride = max(1, -(-total // a.budget))
    # deterministic, stratified: every stride-th candidate in (file, line) order, starting at a.offset
    plan = [c for k, c in enumerate(allc) if k % stride == a.offset % stride][: a.budget]
    for k, c in enumerate(plan):
        c["id"] = "M%04d" % (k + a.idbase)
    with open(os.path.join(ROOT, a.plan), "w") as fh:
        for c in plan:
            fh.write(json.dumps(c) + "\n")
    byop = {}
    for c in plan:
        byop[c["op"]] = byop.get(c["op"], 0) + 1
    print("candidates=%d stride=%d planned=%d by_op=%s" % (total, stride, len(plan), byop))


def ensure_wt(wt, build=True):
    h = head()
    if not os.path.isdir(wt):
        rc, out = sh("git -C %s worktree add --detach %s %s" % (REPO, wt, h))
        if rc:
            raise SystemExit(out)
    sh("git reset -q --hard && git checkout -q --detach %s" % h, cwd=wt)
    if build and not os.path.exists(os.path.join(wt, "_build/build.ninja")):
        rc, out = sh("cmake -G Ninja -B _build -DCMAKE_BUILD_TYPE=RelWithDebInfo -DCMAKE_CXX_COMPILER=/usr/bin/g++ -DCMAKE_CXX_FLAGS=-Wno-error . ", cwd=wt)
        if rc:
            raise SystemExit(out)
    if build:
        rc, out = sh("cmake --build _build -j%d" % 8, cwd=wt, timeout=3600)
        if rc:
            raise SystemExit(out[-3000:])


def apply_mut(wt, c):
    p = os.path.join(wt, c["file"])
    lines = open(p).read().split("\n")
    k = c["line"] - 1
    if k >= len(lines) or lines[k] != c["before"]:
        # the tree may have moved on by a fix commit: accept the same line a few lines away
        near = [j for j in range(max(0, k - 6), min(len(lines), k + 7)) if lines[j] == c["before"]]
        if len(near) != 1:
            return False
        k = near[0]
    lines[k] = c["after"]
    open(p, "w").write("\n".join(lines))
    return True


def worker1(args):
    wid, items, jobs = args
    wt = os.path.join(ROOT, "p1-%d" % wid)
    ensure_wt(wt)
    res = []
    for c in items:
        sh("git reset -q --hard", cwd=wt)
        if not apply_mut(wt, c):
            c["status"] = "stale"
            res.append(c)
            continue
        rc, out = sh("cmake --build _build -j%d" % jobs, cwd=wt, timeout=1500)
        if rc:
            c["status"] = "compile_fail"
        else:
            rc, out = sh("ctest --test-dir _build -j%d --timeout 120" % jobs, cwd=wt, timeout=900)
            if rc == 0 and "100% tests passed" in out:
                c["status"] = "survivor"
                rc2, d = sh("git diff", cwd=wt)
                os.makedirs(os.path.join(ROOT, "survivors"), exist_ok=True)
                open(os.path.join(ROOT, "survivors", c["id"] + ".diff"), "w").write(d)
            else:
                c["status"] = "suite_killed"
        with open(os.path.join(ROOT, "phase1.jsonl"), "a") as fh:
            fh.write(json.dumps(c) + "\n")
        res.append(c)
    sh("git reset -q --hard", cwd=wt)
    return res


def load(name):
    p = os.path.join(ROOT, name)
    return [json.loads(l) for l in open(p)] if os.path.exists(p) else []


def cmd_phase1(a):
    plan = load(a.plan)
    done = {c["id"] for c in load("phase1.jsonl")}
    todo = [c for c in plan if c["id"] not in done]
    # group by file so that consecutive mutants of a header do not each rebuild the world twice
    W = a.workers
    chunks = [todo[k::W] for k in range(W)]
    with cf.ProcessPoolExecutor(W) as ex:
        for r in ex.map(worker1, [(k, chunks[k], a.jobs) for k in range(W)]):
            pass
    cmd_report(a)


def cmd_phase2(a):
    p1 = [c for c in load("phase1.jsonl") if c["status"] == "survivor"]
    done = {c["id"] for c in load("phase2.jsonl")}
    si, sn = (int(x) for x in a.shard.split("/"))
    wt = os.path.join(ROOT, "p2-wt" + (str(si) if si else ""))
    bd = os.path.join(ROOT, "p2-build" + (str(si) if si else ""))
    ensure_wt(wt, build=False)
    for k, c in enumerate(p1):
        if k % sn != si:
            continue
        if c["id"] in {x["id"] for x in load("phase2.jsonl")}:
            continue
        sh("git reset -q --hard", cwd=wt)
        if not apply_mut(wt, c):
            c["verdict"] = "stale"
        else:
            c["verdict"] = "missed"
            c["runs"] = []
            checks = FILES[c["file"]][: a.maxchecks]
            for chk in checks:
                env = dict(os.environ, REPO=wt, VERIF_REPO=wt, BUILD=bd, VERIF_NO_EVIDENCE="1")
                if a.fast:
                    # evaluation-only shortcut: the schema versions of the generation the mutated file belongs to
                    f = c["file"]
                    env["VX_SCHEMAS"] = "2.18.0,2.20.3,2.21.2" if "/v2/" in f else "1.6.0,1.15.0,1.18.0-os" if "/v1/" in f else "1.6.0,1.18.0-os,2.18.0,2.21.2"
                rc, out = sh("timeout 2400 bin/vx check %s --tier quick" % chk, cwd="/verif", timeout=2500, env=env)
                nv = len([l for l in out.split("\n") if l.startswith("VIOLATION")])
                c["runs"].append("%s:exit=%d:viol=%d" % (chk, rc, nv))
                if rc == 1 and nv > 0:
                    c["verdict"] = "caught"
                    c["by"] = chk
                    c["first_violation"] = next((l for l in out.split("\n") if l.startswith("VIOLATION")), "")[:300]
                    break
                if rc not in (0, 1):
                    c["verdict"] = "check_error"
                    c["error_tail"] = out[-600:]
                    break
        with open(os.path.join(ROOT, "phase2.jsonl"), "a") as fh:
            fh.write(json.dumps(c) + "\n")
        print(c["id"], c["file"], c["line"], c["op"], c["verdict"], c.get("by", ""), flush=True)
    sh("git reset -q --hard", cwd=wt)
    cmd_report(a)


def cmd_recheck(a):
    """run further checks against mutants recorded as missed: --ids M0001,M0002 (default: all missed) --checks C02,C11 (default: the rest of the file's list)"""
    p2 = load("phase2.jsonl")
    def trivially_equivalent(c):
        b = c["before"].strip()
        if b.startswith("assert(") or ".reserve(" in b:
            return True  # asserts are compiled out in the release configuration the suite uses; reserve() is a hint
        if c["op"] == "SQLSWAP" and not re.search(r"\b(SELECT|UPDATE|INSERT|WHERE|SET|VALUES|FROM)\b|= \?|\?,", b) and not re.search(r"^\"[A-Za-z]+, [A-Za-z, ]+\"?", b):
            return True  # words swapped inside an exception message
        return False
    ids = set(a.ids.split(",")) if a.ids else {c["id"] for c in p2 if c["verdict"] in ("missed", "check_error") and not trivially_equivalent(c)}
    si, sn = (int(x) for x in a.shard.split("/"))
    wt = os.path.join(ROOT, "p2-wt" + (str(si) if si else ""))
    bd = os.path.join(ROOT, "p2-build" + (str(si) if si else ""))
    ensure_wt(wt, build=False)
    for k, c in enumerate(p2):
        if c["id"] not in ids or k % sn != si:
            continue
        already = {r.split(":")[0] for r in c.get("runs", [])}
        checks = a.checks.split(",") if a.checks else [x for x in FILES[c["file"]] if x not in already]
        sh("git reset -q --hard", cwd=wt)
        if not apply_mut(wt, c):
            continue
        r = {"id": c["id"], "file": c["file"], "line": c["line"], "op": c["op"], "before": c["before"], "after": c["after"], "verdict": "missed", "runs": []}
        for chk in checks:
            env = dict(os.environ, REPO=wt, VERIF_REPO=wt, BUILD=bd, VERIF_NO_EVIDENCE="1")
            if a.fast:
                f = c["file"]
                env["VX_SCHEMAS"] = "2.18.0,2.20.3,2.21.2" if "/v2/" in f else "1.6.0,1.15.0,1.18.0-os" if "/v1/" in f else "1.6.0,1.18.0-os,2.18.0,2.21.2"
            rc, out = sh("timeout 2400 bin/vx check %s --tier quick" % chk, cwd="/verif", timeout=2500, env=env)
            nv = len([l for l in out.split("\n") if l.startswith("VIOLATION")])
            r["runs"].append("%s:exit=%d:viol=%d" % (chk, rc, nv))
            if rc == 1 and nv > 0:
                r["verdict"] = "caught"
                r["by"] = chk
                r["first_violation"] = next((l2 for l2 in out.split("\n") if l2.startswith("  key=")), "")[:300]
                break
        with open(os.path.join(ROOT, "recheck.jsonl"), "a") as fh:
            fh.write(json.dumps(r) + "\n")
        print(r["id"], r["file"], r["line"], r["verdict"], r.get("by", ""), r["runs"], flush=True)
    sh("git reset -q --hard", cwd=wt)


def cmd_report(a):
    p1 = load("phase1.jsonl")
    p2 = load("phase2.jsonl")
    st = {}
    for c in p1:
        st[c["status"]] = st.get(c["status"], 0) + 1
    print("phase1:", st)
    v = {}
    for c in p2:
        v[c["verdict"]] = v.get(c["verdict"], 0) + 1
    print("phase2:", v)
    for c in p2:
        if c["verdict"] != "caught":
            print("  %s %s:%d %s %s | %s -> %s" % (c["id"], c["file"], c["line"], c["op"], c["verdict"], c["before"].strip()[:90], c["after"].strip()[:90]))


def cmd_clean(a):
    for d in os.listdir(ROOT):
        p = os.path.join(ROOT, d)
        if d.startswith("p1-") or d.startswith("p2-wt"):
            sh("git -C %s worktree remove --force %s" % (REPO, p))
    for d in os.listdir(ROOT):
        if d.startswith("p2-build"):
            shutil.rmtree(os.path.join(ROOT, d), ignore_errors=True)


if __name__ == "__main__":
    ap = argparse.ArgumentParser()
    ap.add_argument("cmd")
    ap.add_argument("--budget", type=int, default=300)
    ap.add_argument("--offset", type=int, default=0)
    ap.add_argument("--idbase", type=int, default=0)
    ap.add_argument("--plan", default="plan.jsonl")
    ap.add_argument("--workers", type=int, default=2)
    ap.add_argument("--jobs", type=int, default=6)
    ap.add_argument("--maxchecks", type=int, default=3)
    ap.add_argument("--shard", default="0/1")
    ap.add_argument("--ids", default="")
    ap.add_argument("--fast", action="store_true")
    ap.add_argument("--checks", default="")
    a = ap.parse_args()
    {"gen": cmd_gen, "phase1": cmd_phase1, "phase2": cmd_phase2, "report": cmd_report, "recheck": cmd_recheck, "clean": cmd_clean}[a.cmd](a)
