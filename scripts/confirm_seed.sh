#!/bin/bash
# confirm_seed.sh <PROP> <mK> : independently confirm a seeded change produced by a sub-agent.
#  - uses the scratch worktree /tmp/seed/<PROP> (created if missing, at /repo's HEAD)
#  - applies patch, builds, runs the whole repository suite (must pass), runs demo (must fail)
#  - reverts, rebuilds, runs demo (must pass)
#  - on success copies patch/demo/notes into /verif/seeded/<PROP>-<mK>/ with meta.json
set -u
P="$1"; M="$2"
# optional overrides for later rounds: SRC_DIR (agent output), WT_DIR (its worktree), DEST_ID (name under /verif/seeded)
SRC=${SRC_DIR:-/tmp/seedout/$P/$M}
WT=${WT_DIR:-/tmp/seed/$P}
DEST_ID=${DEST_ID:-$P-$M}
[ -f "$SRC/patch.diff" ] || { echo "no patch at $SRC"; exit 2; }
if [ ! -d "$WT" ]; then git -C /repo worktree add --detach "$WT" HEAD >/dev/null 2>&1 || exit 2; fi
cd "$WT" || exit 2
git checkout -q -- . 
LOG=$SRC/confirm.log; : > "$LOG"
build() { (test -f _build/build.ninja || cmake -G Ninja -B _build -DCMAKE_BUILD_TYPE=RelWithDebInfo -DCMAKE_CXX_COMPILER=/usr/bin/g++ -DCMAKE_CXX_FLAGS=-Wno-error . ) >>"$LOG" 2>&1 && cmake --build _build -j16 >>"$LOG" 2>&1; }
rundemo() { ( cd "$SRC" && rm -f demo && bash ./build_demo.sh "$WT" "$WT/_build" >>"$LOG" 2>&1 && timeout 120 ./demo >>"$LOG" 2>&1; echo $? ) | tail -1; }
git apply "$SRC/patch.diff" || { echo "patch does not apply"; exit 2; }
build || { echo "RESULT $P $M: build failed with patch"; git checkout -q -- .; exit 1; }
TESTS=$(ctest --test-dir _build -j8 --timeout 900 2>&1 | grep -E 'tests passed|tests failed' | tail -1)
echo "ctest with patch: $TESTS" | tee -a "$LOG"
DEMO_PATCHED=$(rundemo)
git checkout -q -- .
build || { echo "RESULT $P $M: rebuild failed"; exit 1; }
DEMO_CLEAN=$(rundemo)
rm -f "$SRC/demo"
echo "demo exit with patch: $DEMO_PATCHED ; without: $DEMO_CLEAN" | tee -a "$LOG"
ok=1
echo "$TESTS" | grep -q '100% tests passed' || ok=0
[ "$DEMO_PATCHED" != "0" ] || ok=0
[ "$DEMO_CLEAN" = "0" ] || ok=0
if [ $ok = 1 ]; then
  D=/verif/seeded/$DEST_ID; mkdir -p "$D"
  cp "$SRC/patch.diff" "$SRC/demo.cpp" "$SRC/build_demo.sh" "$D/" ; cp "$SRC/notes.md" "$D/" 2>/dev/null
  python3 - "$P" "$DEST_ID" "$TESTS" "$DEMO_PATCHED" "$DEMO_CLEAN" "$WT" <<'PY'
import json,sys,os
P,DID,tests,dp,dc,wt=sys.argv[1:7]
d="/verif/seeded/%s"%DID
notes=open(d+"/notes.md").read() if os.path.exists(d+"/notes.md") else ""
meta={"property":P,"id":DID,"origin":"independent sub-agent given only the property text and a scratch worktree",
 "needs_to_manifest":notes[:1500],
 "confirmed":{"worktree":"%s (scratch, base = /repo HEAD at the time)"%wt,
   "suite_with_patch":tests,"demo_exit_with_patch":dp,"demo_exit_without_patch":dc,
   "commands":["git apply patch.diff","cmake --build _build","ctest --test-dir _build -j8","bash build_demo.sh <wt> <wt>/_build && ./demo","git checkout -- . && rebuild && ./demo"]},
 "detected_by":None}
json.dump(meta,open(d+"/meta.json","w"),indent=1)
PY
  echo "RESULT $P $M: CONFIRMED"
else
  echo "RESULT $P $M: NOT CONFIRMED"
fi
