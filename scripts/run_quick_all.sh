#!/bin/bash
# Runs the quick tier of every check, one after the other, against /repo's working tree; prints one line per check.
cd "$(dirname "$0")/.." || exit 2
LOG=${1:-/var/tmp/vx-quick.log}
: > "$LOG"
bad=0
for c in ${CHECKS:-C01 C02 C03 C04 C05 C06 C07 C08 C09 C10 C11 C12 C13 C14 C15 C16 C17 C18 C19 C20}; do
  s=$(date +%s.%N)
  out=$(timeout 1500 bin/vx check $c --tier quick 2>&1); rc=$?
  e=$(date +%s.%N)
  [ $rc = 0 ] || bad=1
  printf "=== %s exit=%d wall=%.1fs\n" $c $rc $(echo "$e - $s" | bc) >> "$LOG"
  echo "$out" | grep -E "^(VIOLATION|KNOWN-FINDING|C[0-9]+ quick)" | cut -c1-260 >> "$LOG"
done
echo "ALL DONE bad=$bad" >> "$LOG"
exit $bad
