#!/bin/bash
# round4.sh <PROP> : confirm the three changes of a later-round sub-agent for <PROP>, run the property's quick check against each
# kept one (scripts/seedtest.sh), and remove the agent's scratch worktree.
# SUF (default d) names the agent's directories /tmp/seedout/<PROP><SUF>, /tmp/seed/<PROP><SUF>; OFFSET (default 6) maps m<k> to id m<k+OFFSET>.
P=$1; SUF=${SUF:-d}; OFF=${OFFSET:-6}
for k in 1 2 3; do
  [ -f /tmp/seedout/${P}${SUF}/m$k/patch.diff ] || continue
  SRC_DIR=/tmp/seedout/${P}${SUF}/m$k WT_DIR=/tmp/seed/${P}${SUF} DEST_ID=$P-m$((k+OFF)) bash /verif/scripts/confirm_seed.sh $P m$k 2>&1 | tail -3
done
git -C /repo worktree remove --force /tmp/seed/${P}${SUF}
for k in 1 2 3; do
  id=$P-m$((k+OFF))
  [ -d /verif/seeded/$id ] && bash /verif/scripts/seedtest.sh $id $P ${EXTRA_CHECKS:-} 2>&1 | grep -E "^SEEDTEST|^---"
done
