#!/bin/bash
# round4.sh <PROP> : confirm the three changes of the round-4 sub-agent for <PROP> (ids m7..m9), run the property's quick check
# against each kept one (scripts/seedtest.sh), and remove the agent's scratch worktree.
P=$1
for k in 1 2 3; do
  [ -f /tmp/seedout/${P}d/m$k/patch.diff ] || continue
  SRC_DIR=/tmp/seedout/${P}d/m$k WT_DIR=/tmp/seed/${P}d DEST_ID=$P-m$((k+6)) bash /verif/scripts/confirm_seed.sh $P m$k 2>&1 | tail -3
done
git -C /repo worktree remove --force /tmp/seed/${P}d
for k in 7 8 9; do
  [ -d /verif/seeded/$P-m$k ] && bash /verif/scripts/seedtest.sh $P-m$k $P ${EXTRA_CHECKS:-} 2>&1 | grep -E "^SEEDTEST|^---"
done
