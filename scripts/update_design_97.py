#!/usr/bin/env python3
"""Rewrites the table of DESIGN.md section 9.7 from seeded/*/meta.json (scripts/seed_table.py) and prints the counts."""
import subprocess, os, re, json, glob
root = os.path.dirname(os.path.dirname(os.path.abspath(__file__)))
table = subprocess.run(["python3", os.path.join(root, "scripts", "seed_table.py")], capture_output=True, text=True, check=True).stdout.strip("\n")
p = os.path.join(root, "DESIGN.md"); s = open(p).read()
a = s.index("| seeded change | what it does |")
b = s.index("\n\nLessons the seeded changes taught")
s = s[:a] + table + s[b:]
open(p, "w").write(s)
rows = [l for l in table.splitlines()[2:]]
n = len(rows); caught = sum(1 for l in rows if "| caught |" in l); hist = sum(1 for l in rows if l.split("|")[5].strip())
other = [l.split("|")[1].strip() + ":" + l.split("|")[4].strip() for l in rows if "| caught |" not in l]
print("seeds", n, "caught", caught, "with history", hist, "others", other)
