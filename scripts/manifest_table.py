MC = "model_checking"
S = "explicit-state BFS over the real library in lock-step with a reference model"
I = "bounded-exhaustive input enumeration on the real code vs a reference model"
chk("C01", MC, I + " (snapshot deviations)",
    "Every snapshot that differs from one of four base snapshots in at most k of the 26 fields (k=1 quick, 2 thorough; field alphabets: absent, sentinels, ordinary, UTF-8, long, clamped, sub-second, slot lists with entries in slots 0 and 7, 12 slots, labels of 255/256 bytes, one-marker / unsorted grids, odd waveform sizes, extreme numbers) is written by create_track and by update over every stored base on all 18 schemas. Per accepted write: deviated fields read back as the normalisation table allows, writing the read-back again is a fixed point, getters equal snapshot fields, a bystander track is unchanged; a rejected write must be a std::exception that leaves the database unchanged and may not hit snapshots made of ordinary values.",
    "Trusts the normalisation table in src/model/trackfields.cpp (shared with C06). Waveforms, and bpm on 1.x when a grid is stored, are derived data held only to the fixed-point and no-later-exception requirements. Snapshots more than k fields away from a base are not covered.",
    "DESIGN.md section 5, C01")
chk("C02", MC, I + " + independent codec (refcodec)",
    "For every value of the C03 set inside the encodable domain, for each of the 11 codecs: refcodec.decode(unframe(lib.encode(v))) equals the Engine layout of v and the frame is exactly 4-byte BE length + one complete zlib stream; lib.decode(frame(refcodec.encode(v))) equals v, with the foreign blob compressed at zlib level -1/0/1/9 and, for 1.x beat data, with Engine's nine trailing zero bytes.",
    "Trusted base: src/refcodec (independent implementation written from the documented layout, zlib one-shot API). No real Engine blob exists in testdata, so agreement with hardware is as good as the documented layout.",
    "DESIGN.md section 5, C02")
chk("C03", MC, I,
    "For each of the 11 codecs every value within k field deviations of a base value (quick: k=2 small size alphabets; thorough: k=2 with grids up to 40000 markers / waveforms up to 100000 points, then k=3) is encoded and decoded by the library: values inside the encodable domain must be accepted and decode bit-for-bit to themselves; values outside may be refused but, if accepted, must still round-trip; under ASan + UBSan + libstdc++ assertions with an inflate-call horizon.",
    "Alphabets are finite (doubles by bit-pattern class, label lengths 0..300, 0..12 entries, chunk-exact payload sizes). 0 as 'no value' for 1.x rate / count / loudness and the opacity-less 1.x overview layout are treated as the layout's documented sentinels.",
    "DESIGN.md section 5, C03")
chk("C04", MC, I + " + setters on planted foreign blobs",
    "Foreign payloads from refcodec with features the library never writes (k<=2/3 deviations: counts 0..12, arbitrary flag / unknown bytes, two different grids, trailing data, chunk-exact sizes) and every single-byte replacement (all 255 values, every position) of small valid payloads: whenever a 2.x decoder accepts, unframe(to_blob(from_blob(x))) must equal the original payload byte for byte (main-cue-adjusted byte may become 1); well-formed foreign blobs must be accepted.",
    "Only the uncompressed payload is compared. Multi-byte corruptions and payloads above ~130 bytes are covered by the structured set only. The setter half (tracks holding foreign blobs, one field changed through the public API) is covered for hot cues / loops / main cue / loudness / key / sample fields in c04 phase 3 when present in the evidence.",
    "DESIGN.md section 5, C04")
chk("C05", MC, I + " + exhaustive zlib answer injection",
    "12 entry points (zlib_uncompress + 11 decoders) under ASan + UBSan + assertions: all byte strings of length <= 2 (quick) / <= 3 (thorough); for 23-29 seed streams x 8 length headers every proper prefix, every other value of the leading / edge stream bytes, trailing bytes, raw / dictionary / stored / concatenated streams; for 2 base payloads per decoder every truncation, single-byte replacement, every count / length field x 16 boundary values x 8 trailing sizes and all pairs of 8-byte counts; every inflate() call index x 9 forced answers (pairs for short streams). Oracle: returns or throws std::exception, no sanitizer report, inflate-call horizon, 30 s watchdog.",
    "The property's 'coverage-guided random mutation' clause is sampling and is not used. Allocation failure is modelled as std::bad_alloc (256 MiB cap under ASan).",
    "DESIGN.md section 5, C05")
chk("C06", MC, S,
    "BFS over the complete single-field setter alphabet (25 fields x 3-6 values each, set_hot_cue_at / set_loop_at at every index 0..7) on two tracks from two seeds; depth 1 on all 18 schemas and depth 2 (all ordered pairs) on 1.18.0-os and 2.21.2 in the quick tier, depth 2 on all 18 in the thorough tier. After every transition every getter and snapshot() of both tracks is read: getter value per normalisation table, getter == snapshot field, list getters == slot getters, nothing outside the set field changes on either track, a throwing setter changes nothing.",
    "Trusts the normalisation table (src/model/trackfields.cpp). Waveform read-back is not predicted. Interference needing three setters is not covered.",
    "DESIGN.md section 5, C06")
chk("C07", MC, S,
    "BFS over create_root_crate, create_sub_crate(p), set_name, set_parent(c, every live crate incl. itself and descendants, and none), remove_crate with names {a, b, '', 'x;y'}, <= 4 live crates, two seeds, depth 3 on all 18 schemas + depth 4 on five (quick), depth 5 on all + depth 6 on four (thorough). In every state the reference forest is compared with crates(), parent(), name(), children(), descendants(), root_crates(), crate_by_id, crates_by_name, root_crate_by_name, sub_crate_by_name and is_valid()/id() of live and removed handles; invalid names and cycles must be rejected without effect.",
    "Duplicate sibling names and the fate of a removed crate's subtree are left open by the statement (all-or-nothing / consistency of whatever survives is checked). States that violate the property are not expanded.",
    "DESIGN.md section 5, C07")
chk("C08", MC, S,
    "BFS over create_track, remove_track, create_root / sub crate, remove_crate, add_track (both overloads), crate.remove_track, clear_tracks with <= 3 tracks and <= 3 crates from three seeds (two with offset id spaces), depth 3 quick / 6 thorough, all 18 schemas. In every state crate.tracks() equals the model's member multiset with valid handles only, containing_crates() is the converse on 1.x, database::tracks() equals the live set.",
    "containing_crates() throws 'not yet implemented' on 2.x, which the statement's 'where supported' allows. More than 3 tracks / crates are not covered.",
    "DESIGN.md section 5, C08")
chk("C09", MC, S,
    "Schema 2.x (7 versions). Crate mode: create_root[_after], create_sub[_after], set_parent, set_name, remove_crate and playlist_table::update to every (parent, position) over <= 4 live crates; entity mode: add_track / remove_track / clear_tracks and playlist_entity_table::add_back with own and foreign uuid on 2 crates x 3 tracks; depth 4 quick / 6 thorough (entity mode one less). After every transition every listing equals the model's ordered list exactly (open positions adopted after checking the others kept their order), tracks() / get_for_list() are in insertion order, and the raw nextListId / nextEntityId chains are single chains.",
    "Lists longer than 4-5 items are not covered.",
    "DESIGN.md section 5, C09")
chk("C10", MC, S + " + on-disk replay of every distinct state",
    "Every distinct state of the composite exploration (depth 2 quick / 3 thorough, 18 schemas) is replayed on an on-disk library, observed through the whole public API, closed, reloaded and observed again: observations identical, loaded schema = creating schema, disk = memory observation, database_exists, create_or_load_database loads (also when the other generation is requested) and creates only in an empty directory.",
    "tmpfs scratch directories; crash points are not in this property's quantifier.",
    "DESIGN.md section 5, C10")
chk("C11", MC, S + " + independent raw reader",
    "Every distinct state of the composite exploration (plus path and UTF-8 rename operations; depth 2 quick / 4 thorough) is inspected by raw SQL and refcodec: integrity_check, foreign_key_check, verify(), every blob decodes, 1.x path / parent list / hierarchy describe one forest, no rows for removed entities, 2.x chains and references, derived filename / file type / origin columns.",
    "The reader uses the library's own connection for in-memory libraries; disk = memory equivalence is C10's.",
    "DESIGN.md section 5, C11")
chk("C12", MC, "exhaustive enumeration of the finite configuration space vs independent fingerprint",
    "All 18 versions x {on-disk, temporary} against all 57 reference dumps: independent structural fingerprint (table_xinfo, foreign_key_list, index_list/xinfo; normalised view / trigger / index text) must match at least one dump of the version completely and every object on which all dumps of the version agree; version triples in every Information table, verify(), version_name(), reload version.",
    "1.6.0 has no dump. Default rows are content, not schema.",
    "DESIGN.md section 5, C12")
chk("C13", MC, I + " (decision table)",
    "6816 loads: every version triple of {0..4,-1,2^31,2^32+1,NULL} x {0..23,-1,2^31,2^32+18,NULL} x {0..4,-1,2^31,2^32+1,NULL} written by raw SQL into three real on-disk libraries (legacy OS columns, legacy desktop columns, Database2) and compared with an independent decision table; plus all layout presence combinations and missing / empty Information tables.",
    "Triples outside the box behave like its border by the switch structure (argument, not enumeration).",
    "DESIGN.md section 5, C13")
chk("C14", "fault_enumeration", "exhaustive enumeration of SQL statement fault positions (F1 error return, F2 interrupt) over explored prior states",
    "In every distinct prior state of the composite exploration (depth 0 on all 18 schemas + depth 1 on four in quick; depth 1 / 2 in thorough) every applicable public mutating call is run fault-free to count its W statement executions and then 2 x W more times with execution k failing (SQLITE_FULL without running; interrupt inside SQLite). Oracle: throws std::exception, no open transaction, dump equals the prior state, the repeated call reaches the fault-free successor.",
    "One fault per call. F2 is not injectable on statements that finish before the progress handler is polled (counted).",
    "DESIGN.md section 5, C14")
chk("C15", MC, S + " with sanitizers as oracle",
    "In every distinct state of the composite exploration (stale handles retained) ~400 calls of the full public surface with arguments in and just outside range, each as a forked sub-step under ASan + UBSan + libstdc++ assertions with a VM-step horizon and watchdog; the state is restored after each call.",
    "Argument values between the listed classes and states deeper than the bound are not covered.",
    "DESIGN.md section 5, C15")
chk("C16", MC, S,
    "In every distinct state of the composite exploration the whole observing surface (all getters, listings, lookups with existing and missing arguments, verify, 2.x table reads) is applied twice: equal answers, sqlite3_total_changes unchanged, dump unchanged; on an on-disk copy database_exists / load + observe / create_or_load + verify leave file hashes unchanged.",
    "Verdict on database content; the count of non-read-only statements is informational.",
    "DESIGN.md section 5, C16")
chk("C17", MC, "exhaustive enumeration of a mechanically generated single-mutation set",
    "For each schema version (m.db and p.db separately) every single structural mutation of the created DDL (drop / rename / add table, view, index; index uniqueness and columns; per column drop, rename, type, NOT NULL, DEFAULT, PRIMARY KEY; add column; remove table PK) is materialised by re-hydrating the file, loaded and verified: must end in database_inconsistency unless its independent fingerprint equals the original's. Accepting side: created libraries, unmutated re-hydration, all 57 reference libraries.",
    "Quick tier: column-level mutants on four versions only. Triggers and view bodies are outside the statement.",
    "DESIGN.md section 5, C17")
chk("C18", MC, I + " and " + S,
    "7 schema-2.x versions: two all-distinct base track_rows with <= k column deviations (k=1 quick, 2 thorough) through add() and update(); every per-column setter with two values after at most one other setter (all ordered pairs) on two rows; playlist_row, playlist_entity_row, information_table; every accessor and remove on a nonexistent id.",
    "Time points at whole seconds. UNIQUE-constraint rejections are legitimate.",
    "DESIGN.md section 5, C18")
chk("C19", MC,
    "bounded-exhaustive input enumeration vs integer reference model",
    "Every integer sample rate in [0,2^31] (thorough; 2^27 quick) plus fractional neighbours of every multiple of 210 / power of two, every quantisation class q with ~70 boundary sample counts each (multiples of q, 1023..1025 q, powers of two up to 2^62, each +-1) and a full (q,count) box are evaluated through the public functions and compared with a reference computed in unsigned __int128: emptiness, minimal cover with < 1 entry of slack, overview = 1024 entries spanning count rounded down to q, monotonicity on every adjacent pair. Exhaustive within those bounds; no sampling.",
    "Trusts the 40-line integer reference in src/checks/c19.cpp, IEEE-754 doubles, and UBSan to surface signed overflow / invalid casts. Counts between the boundary windows for large q and rates that are not integers or near-boundary fractions are covered only through their class representative (q depends on rate only via floor(rate)/210, which step 1 checks for every integer rate).",
    "DESIGN.md section 5, C19")
chk("C20", MC, I + " (lattice of marker positions, exact rational reference)",
    "Every strictly increasing n-subset (n <= 5 quick, 7 thorough) of a 15-point lattice around the track x first index {-8,-4,0,3} x gap vectors over {1,2,4,7} x 5 sample counts, plus empty / single-marker grids: normalised first index -4, last marker within one beat past the end, first / last segment tempo kept (exact __int128 reference), interior markers bit-identical, strictly increasing, idempotent; grids that cannot be normalised throw invalid_argument.",
    "Offsets restricted to the lattice (multiples of 0.5). More than 7 markers are covered by the argument that behaviour depends only on the first / last two retained markers.",
    "DESIGN.md section 5, C20")
