#!/usr/bin/env python3
"""Prints the markdown table of DESIGN.md section 9.6 from evidence/<id>.json (quick tier, last run)."""
import json, os
root = os.path.dirname(os.path.dirname(os.path.abspath(__file__)))
print("| check | wall | explored |")
print("|---|---|---|")
for i in range(1, 21):
    pid = "C%02d" % i
    e = json.load(open(os.path.join(root, "evidence", pid + ".json")))
    c = e["coverage"]
    bits = []
    for k in ("states", "transitions", "evaluations", "distinct_nontrivial", "traces_validated_against_impl"):
        if k in c: bits.append("%s %s" % (f"{c[k]:,}".replace(",", " "), k.replace("_", " ")))
    print("| %s | %.0f s (%s) | %s |" % (pid, e["wall_s"], e["tier"], "; ".join(bits)))
