#!/bin/bash
# seedtest_all.sh [pattern] : re-run the quick tier of each kept seeded change's property check (scripts/seedtest.sh) and
# summarise. Takes a few minutes per change; run it in the background.
cd /verif
pat="${1:-C}"
for d in seeded/${pat}*-[ms]*; do
  s=$(basename "$d"); p=${s%%-*}
  st=$(python3 -c "import json;print(json.load(open('$d/meta.json')).get('status',''))")
  case "$st" in superseded*|no\ longer*) echo "SKIP $s ($st)"; continue;; esac
  bash scripts/seedtest.sh "$s" "$p" 2>&1 | grep -E "^SEEDTEST"
done
