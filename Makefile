# /verif/Makefile — builds libdjinterop (from /repo's own CMakeLists.txt, out of tree)
# in two instrumented variants and the model-checking harness `vx` on top of each.
REPO      ?= /repo
BUILD     ?= $(CURDIR)/build
JOBS      ?= 16
CXX       := /usr/bin/g++

COMMON_FLAGS := -g -fno-omit-frame-pointer -D_GLIBCXX_ASSERTIONS -DNDEBUG -DDJINTEROP_VERIF
SAN_FLAGS := -O1 -fsanitize=address,undefined -fno-sanitize-recover=undefined $(COMMON_FLAGS)
OPT_FLAGS := -O2 -fsanitize=undefined -fno-sanitize-recover=undefined $(COMMON_FLAGS)
# coverage measurement only (scripts/coverage.sh); never used by a registered check
COV_FLAGS := -O0 --coverage -DVX_COVERAGE $(COMMON_FLAGS)

HSRC := $(wildcard src/common/*.cpp) $(wildcard src/refcodec/*.cpp) $(wildcard src/model/*.cpp) $(wildcard src/checks/*.cpp)
INCS  = -I$(REPO)/include -I$(BUILD)/lib-$(1)/include -I$(REPO)/src -I$(REPO)/ext/sqlite_modern_cpp -I$(REPO)/ext/date -Isrc -DDJINTEROP_SOURCE

.PHONY: all build lib-san lib-opt clean setup
all: build
setup: build
build:
	@mkdir -p $(BUILD)
	@flock $(BUILD)/.lock $(MAKE) --no-print-directory -j$(JOBS) _build_locked

.PHONY: _build_locked
_build_locked: $(BUILD)/vx-san $(BUILD)/vx-opt

define VARIANT
.PHONY: lib-$(1)
lib-$(1):
	@mkdir -p $(BUILD)/lib-$(1)
	@test -f $(BUILD)/lib-$(1)/build.ninja || cmake -S $(REPO) -B $(BUILD)/lib-$(1) -G Ninja \
	   -DCMAKE_CXX_COMPILER=$(CXX) -DCMAKE_BUILD_TYPE= -DBUILD_SHARED_LIBS=OFF \
	   "-DCMAKE_CXX_FLAGS=$(2) -Wno-error" > $(BUILD)/lib-$(1)/configure.log 2>&1 || (cat $(BUILD)/lib-$(1)/configure.log; exit 2)
	@cmake --build $(BUILD)/lib-$(1) --target DjInterop -j$(JOBS) > $(BUILD)/lib-$(1)/build.log 2>&1 || (tail -n 60 $(BUILD)/lib-$(1)/build.log; exit 2)

$(BUILD)/lib-$(1)/libdjinterop.a: lib-$(1)
	@true

$(BUILD)/obj-$(1)/%.o: src/%.cpp | lib-$(1)
	@mkdir -p $$(dir $$@)
	$(CXX) -std=c++17 $(2) -Wall -Wno-unused-function -Wno-sign-compare -Wno-mismatched-new-delete -MMD -MP $(call INCS,$(1)) -c $$< -o $$@

$(BUILD)/vx-$(1): $(patsubst src/%.cpp,$(BUILD)/obj-$(1)/%.o,$(HSRC)) $(BUILD)/lib-$(1)/libdjinterop.a
	$(CXX) $(2) -o $$@ $(patsubst src/%.cpp,$(BUILD)/obj-$(1)/%.o,$(HSRC)) $(BUILD)/lib-$(1)/libdjinterop.a -rdynamic -lsqlite3 -lz -ldl -lpthread

-include $(patsubst src/%.cpp,$(BUILD)/obj-$(1)/%.d,$(HSRC))
endef

$(eval $(call VARIANT,san,$(SAN_FLAGS)))
$(eval $(call VARIANT,opt,$(OPT_FLAGS)))
$(eval $(call VARIANT,cov,$(COV_FLAGS)))
.PHONY: cov
cov: $(BUILD)/vx-cov

clean:
	rm -rf $(BUILD)
